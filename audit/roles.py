"""Private functions that rules are anchored on, found by name first and by their role in the code second, so that renaming a private
helper neither silences a rule nor raises an alarm.  (The other anchors are `pub` items of the crate; renaming those is an API change.)

canonical name -> how to recognise the function when the name is gone"""

CANON_EIA = "minimal_lexical::bellerophon::error_is_accurate"
CANON_SCALE = "minimal_lexical::bellerophon::error_scale"
STAGE = "minimal_lexical::bellerophon::bellerophon"


def _is_ef_ref(ty):
    return ty.get("k") == "ref" and ty.get("to", {}).get("k") == "adt" and ty["to"].get("name", "").endswith("extended_float::ExtendedFloat")


def resolve(facts):
    """{canonical dpath: actual dpath in the current tree}; an entry is absent when the function cannot be identified"""
    cached = getattr(facts, "_roles", None)
    if cached is not None:
        return cached
    mono = facts.mono
    dpaths = set(m.get("dpath") for m in mono.values())
    out = {}
    stage = [m for m in mono.values() if m.get("dpath") == STAGE and "blocks" in m]
    # error_is_accurate: the crate function called directly by bellerophon() that takes a &ExtendedFloat and returns bool
    if CANON_EIA in dpaths:
        out[CANON_EIA] = CANON_EIA
    else:
        cands = set()
        for m in stage:
            for b in m["blocks"]:
                t = b["t"]
                c = mono.get(t.get("callee")) if t.get("k") == "call" and t.get("callee") is not None else None
                if c is None or c.get("krate") != "minimal_lexical" or "locals" not in c:
                    continue
                if c["locals"][0].get("k") == "bool" and any(_is_ef_ref(c["locals"][i]) for i in range(1, c.get("argc", 0) + 1)):
                    cands.add(c["dpath"])
        if len(cands) == 1:
            out[CANON_EIA] = cands.pop()
    # error_scale: the unit of the estimate -- by name, else the zero-argument integer function of the bellerophon module that the
    # stage's call tree reaches and that calls nothing itself (error_halfscale calls error_scale, so it is not a leaf)
    if CANON_SCALE in dpaths:
        out[CANON_SCALE] = CANON_SCALE
    else:
        seen, todo, leaves = set(), [m["id"] for m in stage], set()
        while todo:
            i = todo.pop()
            m = mono.get(i)
            if m is None or i in seen or "blocks" not in m:
                continue
            seen.add(i)
            callees = [b["t"].get("callee") for b in m["blocks"] if b["t"].get("k") == "call" and b["t"].get("callee") is not None]
            local = [c for c in callees if mono.get(c, {}).get("krate") == "minimal_lexical"]
            if m.get("argc", 1) == 0 and m["locals"][0].get("k") in ("uint", "int") and not callees and m["dpath"].startswith("minimal_lexical::bellerophon::"):
                leaves.add(m["dpath"])
            todo.extend(local)
        if len(leaves) == 1:
            out[CANON_SCALE] = leaves.pop()
    try:
        facts._roles = out
    except Exception:
        pass
    return out


def actual(facts, canon):
    return resolve(facts).get(canon, canon)


def canonical(facts, dpath):
    for c, a in resolve(facts).items():
        if a == dpath:
            return c
    return dpath
