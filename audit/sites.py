"""Audited obligations: the complete list of places where a check trusts an argument that the abstract
interpreter (E4) cannot mechanise (DESIGN 5.4).  An entry suppresses exactly one obligation key (the float
tag is normalised to <F>); it carries a one-line reason and, wherever one exists, a machine-checked side
condition: a closed formula over constants extracted from the current tree, re-evaluated on every run.
An audited obligation whose side condition fails is a violation.  Entries are frozen by reading the code."""

CAP = ("max(bits(10**(F64_MAX_DIGITS+1)), F64_MANTISSA_SIZE+2+bits(5**(F64_MAX_DIGITS-F64_SMALLEST_POWER_OF_TEN)), "
       "bits(10**(F64_LARGEST_POWER_OF_TEN+20))) + 64 + LIMB_BITS <= BIGINT_LIMBS*LIMB_BITS and "
       "max(bits(10**(F32_MAX_DIGITS+1)), F32_MANTISSA_SIZE+2+bits(5**(F32_MAX_DIGITS-F32_SMALLEST_POWER_OF_TEN)), "
       "bits(10**(F32_LARGEST_POWER_OF_TEN+20))) + 64 + LIMB_BITS <= BIGINT_LIMBS*LIMB_BITS")
R_CAP = "big-integer never exceeds its capacity for valid input (DESIGN appendix B: digits, b+h and positive-exponent bounds)"
R_M19 = "at most 19 digits are accumulated into the u64 significand (the 20th digit exits first), so it stays below 10^19"
R_STEP = "the inner loop runs while counter < step (19 for 64-bit limbs), so value < 10^counter <= 10^19"
R_QRANGE = ("slow() runs only after the moderate stage declined, which requires SMALLEST <= q <= LARGEST (Eisel-Lemire) or |q| < 0x1000 "
            "(Bellerophon); scientific_exponent adds at most 19 and at most MAX_DIGITS+1 digits are counted")
S_QRANGE = "F64_LARGEST_POWER_OF_TEN + 0x1000 + 20 + F64_MAX_DIGITS + 2 < 2**31 and -(F64_SMALLEST_POWER_OF_TEN) + 0x1000 + F64_MAX_DIGITS + 2 < 2**31"
R_MD = ("reached only when digits were truncated and compute_float(q, w) != compute_float(q, w+1): then w >= 1 (a truncated significand starts "
        "with a non-zero digit) and q is inside the table range (outside it both calls return the same constant); the engine loses this "
        "correlation at the join before the last digit loop of parse_number")
R_NORM = ("declined estimates are normalised (compute_error_scaled / bellerophon shift the top bit into place) and lie within 64 bits of the "
          "subnormal range; the second part is number-theoretic (DESIGN 5.4)")
R_HI = "hi64 is applied to a normalised vector (top limb non-zero after normalize / pow / from_u64), so leading_zeros() < 64"
R_FILL = ("fill loop `for index in 0..count` writes slots old_len..len before `length = len`; its invariant init >= old_len + index is a "
          "three-variable relation outside the difference-bound domain")


R_CAPH = ("heap back-end (feature alloc): the vector has no hard bound, but for valid input the big integer never exceeds BIGINT_LIMBS limbs "
          "(same argument as the capacity entries, DESIGN appendix B), so x.len() <= 62 here; with the stack back-end the engine proves these sites")


def _e(key, reason, props, side=None, only=None):
    d = {"key": key, "reason": reason, "props": props}
    if side:
        d["side"] = side
    if only:
        d["only"] = only          # applies only to analysis groups (configurations) whose name contains this string
    return d


AUDIT = [
    # -- u64 significand accumulation --------------------------------------------------------------------------
    _e("minimal_lexical::parse::parse_number | assert:overflow:Mul | num.mantissa * 10", R_M19, ["C04", "C07"], "10**19 <= 2**64"),
    _e("minimal_lexical::parse::parse_number | assert:overflow:Add | num.mantissa * 10 + digit as u64", R_M19, ["C04", "C07"], "10**19 <= 2**64"),
    _e("minimal_lexical::parse::parse_number | arith-no-wrap:Mul | num.mantissa * 10", R_M19, ["C07"], "10**19 <= 2**64"),
    _e("minimal_lexical::parse::parse_number | arith-no-wrap:Add | num.mantissa = num.mantissa * 10 + digit as u64", R_M19, ["C07"], "10**19 <= 2**64"),
    _e("minimal_lexical::lemire::lemire<F> | assert:overflow:Add | num.mantissa + 1", R_M19, ["C04"], "10**19 < 2**64"),
    _e("minimal_lexical::slow::parse_mantissa | assert:overflow:Mul | add_digit!(c, value, counter, count) >> $value *= 10 as Limb", R_STEP, ["C04"], "10**19 <= 2**LIMB_BITS"),
    _e("minimal_lexical::slow::parse_mantissa | assert:overflow:Add | add_digit!(c, value, counter, count) >> $value += digit as Limb", R_STEP, ["C04"], "10**19 <= 2**LIMB_BITS"),
    # -- truncated-significand re-check -----------------------------------------------------------------------------
    _e("minimal_lexical::lemire::compute_error<F> | assert:overflow:Shl | w <<= lz", R_MD, ["C04"]),
    _e("minimal_lexical::lemire::compute_product_approx | panic | debug_assert!(q >= SMALLEST_POWER_OF_FIVE) >> $crate::assert!($($arg)*)", R_MD, ["C04"],
       "F64_SMALLEST_POWER_OF_TEN >= -342 and F32_SMALLEST_POWER_OF_TEN >= -342"),
    _e("minimal_lexical::lemire::compute_product_approx | panic | debug_assert!(q <= LARGEST_POWER_OF_FIVE) >> $crate::assert!($($arg)*)", R_MD, ["C04"],
       "F64_LARGEST_POWER_OF_TEN <= 308 and F32_LARGEST_POWER_OF_TEN <= 308"),
    # -- slow path preconditions ---------------------------------------------------------------------------------------
    _e("minimal_lexical::slow::slow<F> | panic | debug_assert!(fp.mant & (1 << 63) != 0) >> $crate::assert!($($arg)*)", R_NORM, ["C04"]),
    _e("minimal_lexical::rounding::round<F> | panic | debug_assert!(shift <= 65) >> $crate::assert!($($arg)*)", R_NORM, ["C04"]),
    _e("minimal_lexical::num::{impl#0}::from_bits | panic | debug_assert!(u <= 0xffff_ffff) >> $crate::assert!($($arg)*)",
       "extended_to_float packs exp <= INFINITE_POWER and mant <= HIDDEN_BIT_MASK (post-condition of round, C18); unproven only on the abstract disjunct of the entry above", ["C04"],
       "F32_INFINITE_POWER == 255 and F32_MANTISSA_SIZE == 23"),
    # -- exponent bookkeeping of the slow path ------------------------------------------------------------------------
    _e("minimal_lexical::slow::scientific_exponent | assert:overflow:Add | exponent += 4", R_QRANGE, ["C04", "C07"], S_QRANGE),
    _e("minimal_lexical::slow::scientific_exponent | assert:overflow:Add | exponent += 2", R_QRANGE, ["C04", "C07"], S_QRANGE),
    _e("minimal_lexical::slow::scientific_exponent | assert:overflow:Add | exponent += 1", R_QRANGE, ["C04", "C07"], S_QRANGE),
    _e("minimal_lexical::slow::scientific_exponent | arith-no-wrap:Add | exponent += 4", R_QRANGE, ["C07"], S_QRANGE),
    _e("minimal_lexical::slow::scientific_exponent | arith-no-wrap:Add | exponent += 2", R_QRANGE, ["C07"], S_QRANGE),
    _e("minimal_lexical::slow::scientific_exponent | arith-no-wrap:Add | exponent += 1", R_QRANGE, ["C07"], S_QRANGE),
    _e("minimal_lexical::slow::slow<F> | assert:overflow:Add | sci_exp + 1", R_QRANGE, ["C04", "C07"], S_QRANGE),
    _e("minimal_lexical::slow::slow<F> | assert:overflow:Sub | sci_exp + 1 - digits as i32", R_QRANGE, ["C04", "C07"], S_QRANGE),
    _e("minimal_lexical::slow::slow<F> | arith-no-wrap:Add | sci_exp + 1", R_QRANGE, ["C07"], S_QRANGE),
    _e("minimal_lexical::slow::slow<F> | arith-no-wrap:Sub | sci_exp + 1 - digits as i32", R_QRANGE, ["C07"], S_QRANGE),
    _e("minimal_lexical::slow::negative_digit_comp<F> | assert:overflow_neg | -real_exp", R_QRANGE, ["C04"], S_QRANGE),
    _e("minimal_lexical::slow::negative_digit_comp<F> | assert:overflow:Sub | theor_exp - real_exp", R_QRANGE, ["C04"], S_QRANGE),
    # -- big-integer capacity --------------------------------------------------------------------------------------------
    _e("minimal_lexical::slow::positive_digit_comp<F> | panic via core::option::Option::<T>::unwrap | bigmant.pow(10, exponent as u32).unwrap()", R_CAP, ["C04"], CAP),
    _e("minimal_lexical::slow::negative_digit_comp<F> | panic via core::option::Option::<T>::unwrap | theor_digits.pow(5, halfradix_exp as u32).unwrap()", R_CAP, ["C04"], CAP),
    _e("minimal_lexical::slow::negative_digit_comp<F> | panic via core::option::Option::<T>::unwrap | theor_digits.pow(2, binary_exp as u32).unwrap()", R_CAP, ["C04"], CAP),
    _e("minimal_lexical::slow::negative_digit_comp<F> | panic via core::option::Option::<T>::unwrap | real_digits.pow(2, (-binary_exp) as u32).unwrap()", R_CAP, ["C04"], CAP),
] + [
    _e("minimal_lexical::slow::parse_mantissa | panic via core::option::Option::<T>::unwrap | %s >> $result.data.%s.unwrap()" % (m, c), R_CAP, ["C04"], CAP)
    for m in ("add_temporary!(@end format, result, counter, value)", "add_temporary!(@max format, result, counter, value, max_native)",
              "round_up_nonzero!(format, integer, result, count)", "round_up_nonzero!(format, fraction, result, count)")
    for c in ("mul_small($power)", "add_small($value)")
] + [
    # -- top-64-bit extraction ---------------------------------------------------------------------------------------------
    _e("minimal_lexical::bigint::u64_to_hi64_1 | assert:overflow:Shl | r0 << ls", R_HI, ["C04", "C12"]),
    _e("minimal_lexical::bigint::u64_to_hi64_2 | assert:overflow:Shl | (r0 << ls)", R_HI, ["C04", "C12"]),
    _e("minimal_lexical::bigint::scalar_mul | cast-value-preserving | z as Limb",
       "low half of the widening idiom: z = x*y + carry fits the double-width type and its high half `(z >> LIMB_BITS) as Limb` is returned alongside", ["C12"],
       "(2**LIMB_BITS - 1) * (2**LIMB_BITS - 1) + (2**LIMB_BITS - 1) < 2**(2*LIMB_BITS)"),
    _e("minimal_lexical::bigint::large_add_from | panic via core::option::Option::<T>::unwrap | x.get_mut(start + index).unwrap()",
       "after try_resize(y.len() + start) succeeded (or x was already long enough) x.len() >= y.len() + start > start + index", ["C04"]),
    # -- resize fill loop --------------------------------------------------------------------------------------------------
    _e("minimal_lexical::stackvec::{impl#0}::try_resize | vector-invariant at exit (&mut argument) | pub fn try_resize(&mut self, len: usize, value: bigint::Limb) -> Option<()>",
       R_FILL, ["C04", "C08", "C12", "C13"]),
    _e("minimal_lexical::stackvec::{impl#6}::deref_mut | from_raw_parts-initialised | slice::from_raw_parts_mut(*",
       R_FILL + " (inside the loop the exposed slice still has the old length, which was initialised on entry)", ["C04", "C08", "C12", "C13"]),
] + [
    # -- heap back-end only: consequences of len <= BIGINT_LIMBS, which the heap vector does not enforce ---------------------------------
    _e("minimal_lexical::heapvec::{impl#0}::set_len | panic | debug_assert!(len <= bigint::BIGINT_LIMBS) >> $crate::assert!($($arg)*)", R_CAPH, ["C04"], CAP, only="alloc"),
    _e("minimal_lexical::bigint::bit_length | assert:overflow:Mul | LIMB_BITS as u32 * x.len() as u32", R_CAPH, ["C04", "C12"], CAP, only="alloc"),
    _e("minimal_lexical::bigint::bit_length | assert:overflow:Sub | LIMB_BITS as u32 * x.len() as u32 - nlz", R_CAPH, ["C04", "C12"], CAP, only="alloc"),
    _e("minimal_lexical::slow::positive_digit_comp<F> | assert:overflow:Sub | bigmant.bit_length() as i32 - 64", R_CAPH, ["C04"], CAP, only="alloc"),
    _e("minimal_lexical::slow::positive_digit_comp<F> | assert:overflow:Add | bigmant.bit_length() as i32 - 64 + F::EXPONENT_BIAS", R_CAPH, ["C04"], CAP, only="alloc"),
    _e("minimal_lexical::rounding::round<F> | assert:overflow:Add | fp.exp += 1", R_CAPH, ["C04"], CAP, only="alloc"),
    _e("minimal_lexical::rounding::round_nearest_tie_even | assert:overflow:Add | fp.exp += shift", R_CAPH, ["C04"], CAP, only="alloc"),
] + [
    # -- shipped front-end (7 copies): content-dependent arguments ---------------------------------------------------------
    _e("roots::fe_%s::parse_exponent | panic via core::option::Option::<T>::unwrap | to_digit(*" % k,
       "parse_exponent is only called on the output of consume_digits, whose bytes all satisfy is_digit (a content property the engine does not track)", ["C19"])
    for k in ("simple", "fuzz", "integ", "rng", "golang", "random", "unit")
] + [
    _e("roots::fe_%s::parse_float<F> | range-index-in-bounds | [%d..]" % (k, n),
       "reached only after case_insensitive_starts_with matched a literal of that many bytes, so the slice is at least that long (content property)", ["C19"])
    for k in ("fuzz", "integ") for n in (3, 8)
]
