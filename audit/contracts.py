"""Modular entry points of E4 (DESIGN 5.13): library functions that are analysed ONCE, standalone, for
every input satisfying the StackVec representation invariant INV (length <= capacity, slots [0, length)
initialised) and the argument preconditions below; their call sites check the precondition and use the
summary (INV re-established on every `&mut` vector argument, return value = hull of the standalone exits).

A function that is not listed here (or that has been renamed) is simply inlined at its call sites, which
is slower but equally sound: this table is an optimisation plus a record of the caller-established
preconditions that were read off the code; it never silences an obligation.

key   = def path (crate::module::item; impl blocks as rustc numbers them, matched by suffix after the impl)
value = {argument index (1-based): (lo, hi)}  -- closed integer interval the callers must establish
"""
A1 = 1 << 62

CONTRACTS = {
    # bigint.rs ------------------------------------------------------------------------------
    "minimal_lexical::bigint::small_mul": {},
    "minimal_lexical::bigint::small_add_from": {},
    "minimal_lexical::bigint::small_add": {},
    # `y.len() + start` must not overflow: callers pass 0 or an index into a slice (< 2^62 by A1)
    "minimal_lexical::bigint::large_add_from": {3: (0, A1)},
    "minimal_lexical::bigint::large_add": {},
    "minimal_lexical::bigint::long_mul": {},
    "minimal_lexical::bigint::large_mul": {},
    "minimal_lexical::bigint::pow": {},
    "minimal_lexical::bigint::shl": {},
    # callers (shl) pass n % LIMB_BITS != 0 and n / LIMB_BITS != 0 of a usize bit count
    "minimal_lexical::bigint::shl_bits": {2: (1, 63)},
    "minimal_lexical::bigint::shl_limbs": {2: (1, 1 << 58)},
    "minimal_lexical::bigint::normalize": {},
    # vector types: methods matched by name below
}
# methods of the vector types (StackVec / HeapVec) and of Bigint that get a (precondition-free) contract
VEC_METHODS = ("try_resize",)
# deliberately NOT listed (cheap, and their results matter to callers, so they are inlined in context):
# hi64, bit_length, leading_zeros, compare, is_normalized, len, capacity, is_empty, deref, deref_mut, set_len
VEC_TYPES = ("minimal_lexical::stackvec::", "minimal_lexical::heapvec::", "minimal_lexical::bigint::{impl#")


def contract_for(dpath):
    c = CONTRACTS.get(dpath)
    if c is not None:
        return c
    for t in VEC_TYPES:
        if dpath.startswith(t) and dpath.rsplit("::", 1)[-1] in VEC_METHODS:
            return {}
    return None


# Results that RESCALE another quantity: `normalize` returns the number of bits by which it shifted the significand, and the error
# budget of the stage (the first argument of the listed consumer) is expressed in units of the last place of that significand.
# A caller may drop the returned shift only while every value that flows into the consumer's argument is provably zero;
# otherwise the pending error is silently left in the old unit (E4 obligation `scale-consumed`, C11).
SCALED_RESULTS = {
    "minimal_lexical::bellerophon::normalize": {"consumer": "minimal_lexical::bellerophon::error_is_accurate", "arg": 0},
}


# Functions in which a `wrapping_add` / `wrapping_sub` is used as plain arithmetic on values that are meant not to wrap (the comparison
# that follows is only meaningful without a wrap).  E4 obligation `wrap-free` (C11): the operation provably does not wrap there.
NOWRAP_CALLERS = {
    "minimal_lexical::bellerophon::error_is_accurate": "halfway -/+ errors are compared with the truncated bits; a wrapped bound accepts every value",
    # the (disguised) fast path is exact only if significand * 10^k is the true product: none today (checked_mul), so this entry is a guard
    "minimal_lexical::number::{impl#0}::try_fast_path": "the fast path returns significand * 10^k converted once; a wrapped product is a different number",
}
