//! mlx-facts: rustc_private fact extractor for the minimal-lexical static checks.
//!
//! Used as RUSTC_WORKSPACE_WRAPPER. For every workspace crate compiled it
//! writes `$MLX_FACTS_DIR/<crate>.json` (one write per process) containing
//!   * items, struct fields and their visibility, extern crates,
//!   * evaluated values of every const / static / Float associated const,
//!   * a polymorphic MIR summary of every fn-like body,
//!   * (crates named in $MLX_MONO_CRATES) the full monomorphic MIR of every
//!     instance reachable from functions whose name starts with `root_`.
#![feature(rustc_private)]
#![allow(clippy::all)]
extern crate rustc_abi;
extern crate rustc_driver;
extern crate rustc_hir;
extern crate rustc_interface;
extern crate rustc_middle;
extern crate rustc_session;
extern crate rustc_span;

use rustc_abi::{FieldsShape, Size, TagEncoding, VariantIdx, Variants};
use rustc_driver::Compilation;
use rustc_hir::def::DefKind;
use rustc_hir::def_id::DefId;
use rustc_middle::mir::interpret::{AllocId, Allocation, GlobalAlloc, Scalar};
use rustc_middle::mir::{
    self, ConstValue, NonDivergingIntrinsic, Operand, Place, ProjectionElem, Rvalue, StatementKind,
    TerminatorKind,
};
use rustc_middle::ty::{self, EarlyBinder, Instance, Ty, TyCtxt, TypingEnv};
use std::collections::{BTreeSet, HashMap, VecDeque};
use std::fmt::Write as _;

fn esc(s: &str) -> String {
    let mut o = String::with_capacity(s.len() + 2);
    for c in s.chars() {
        match c {
            '"' => o.push_str("\\\""),
            '\\' => o.push_str("\\\\"),
            '\n' => o.push_str("\\n"),
            '\t' => o.push_str("\\t"),
            c if (c as u32) < 0x20 => {
                let _ = write!(o, "\\u{:04x}", c as u32);
            }
            c => o.push(c),
        }
    }
    o
}
fn jstr(s: &str) -> String {
    format!("\"{}\"", esc(s))
}
fn jlist(v: &[String]) -> String {
    format!("[{}]", v.join(","))
}

struct Cx<'tcx> {
    tcx: TyCtxt<'tcx>,
    env: TypingEnv<'tcx>,
}

impl<'tcx> Cx<'tcx> {
    fn dpath(&self, d: DefId) -> String {
        format!("{}{}", self.tcx.crate_name(d.krate), self.tcx.def_path(d).to_string_no_crate_verbose())
    }

    fn krate_of(&self, d: DefId) -> String {
        self.tcx.crate_name(d.krate).to_string()
    }

    fn ty(&self, t: Ty<'tcx>) -> String {
        match t.kind() {
            ty::Bool => "{\"k\":\"bool\"}".to_string(),
            ty::Int(i) => format!(
                "{{\"k\":\"int\",\"bits\":{},\"signed\":true}}",
                i.bit_width().unwrap_or(64)
            ),
            ty::Uint(u) => format!(
                "{{\"k\":\"int\",\"bits\":{},\"signed\":false}}",
                u.bit_width().unwrap_or(64)
            ),
            ty::Float(f) => format!("{{\"k\":\"float\",\"bits\":{}}}", f.bit_width()),
            ty::Char => "{\"k\":\"int\",\"bits\":32,\"signed\":false,\"char\":true}".to_string(),
            ty::Ref(_, inner, m) => {
                format!("{{\"k\":\"ref\",\"mut\":{},\"to\":{}}}", m.is_mut(), self.ty(*inner))
            }
            ty::RawPtr(inner, m) => {
                format!("{{\"k\":\"ptr\",\"mut\":{},\"to\":{}}}", m.is_mut(), self.ty(*inner))
            }
            ty::Tuple(ts) => {
                let v: Vec<String> = ts.iter().map(|t| self.ty(t)).collect();
                format!("{{\"k\":\"tuple\",\"n\":{},\"elems\":{}}}", ts.len(), jlist(&v))
            }
            ty::Adt(def, args) => {
                let targs: Vec<String> = args.types().map(|t| self.ty(t)).collect();
                format!(
                    "{{\"k\":\"adt\",\"name\":{},\"krate\":{},\"enum\":{},\"s\":{},\"targs\":{}}}",
                    jstr(&self.tcx.def_path_str(def.did())),
                    jstr(&self.krate_of(def.did())),
                    def.is_enum(),
                    jstr(&format!("{:?}", t)),
                    jlist(&targs)
                )
            }
            ty::Slice(e) => format!("{{\"k\":\"slice\",\"elem\":{}}}", self.ty(*e)),
            ty::Array(e, n) => format!(
                "{{\"k\":\"array\",\"elem\":{},\"len\":{}}}",
                self.ty(*e),
                n.try_to_target_usize(self.tcx)
                    .map(|x| x.to_string())
                    .unwrap_or("null".into())
            ),
            ty::Closure(d, cargs) => format!(
                "{{\"k\":\"closure\",\"name\":{},\"krate\":{},\"upvars\":{}}}",
                jstr(&self.tcx.def_path_str(*d)),
                jstr(&self.krate_of(*d)),
                cargs.as_closure().upvar_tys().len()
            ),
            ty::FnDef(d, _) => format!(
                "{{\"k\":\"fndef\",\"name\":{},\"krate\":{},\"s\":{}}}",
                jstr(&self.tcx.def_path_str(*d)),
                jstr(&self.krate_of(*d)),
                jstr(&format!("{:?}", t))
            ),
            ty::Never => "{\"k\":\"never\"}".to_string(),
            ty::Str => "{\"k\":\"str\"}".to_string(),
            _ => format!("{{\"k\":\"other\",\"s\":{}}}", jstr(&format!("{:?}", t))),
        }
    }

    fn span(&self, sp: rustc_span::Span) -> String {
        let sm = self.tcx.sess.source_map();
        // keys are built from these snippets: comments and layout must not matter
        let norm = |s: String| strip_comments(&s).split_whitespace().collect::<Vec<_>>().join(" ");
        let exp = sp.from_expansion();
        let call = sp.source_callsite();
        let snip = norm(sm.span_to_snippet(sp).unwrap_or_default());
        let loc = sm.span_to_diagnostic_string(call);
        let mut s = format!("{{\"loc\":{},\"snip\":{},\"exp\":{}", jstr(&loc), jstr(&snip), exp);
        if exp {
            let csnip = norm(sm.span_to_snippet(call).unwrap_or_default());
            let mut c = csnip;
            if c.len() > 160 {
                let mut cut = 160;
                while !c.is_char_boundary(cut) {
                    cut -= 1;
                }
                c.truncate(cut);
            }
            let _ = write!(s, ",\"call\":{}", jstr(&c));
        }
        s.push('}');
        s
    }

    // ------------------------------------------------------------------
    // typed decoding of constant memory
    // ------------------------------------------------------------------
    fn read_uint(&self, alloc: &Allocation, off: Size, size: Size) -> Option<u128> {
        let start = off.bytes_usize();
        let end = start + size.bytes_usize();
        if end > alloc.len() {
            return None;
        }
        let bytes = alloc.inspect_with_uninit_and_ptr_outside_interpreter(start..end);
        let mut v: u128 = 0;
        for (i, b) in bytes.iter().enumerate() {
            v |= (*b as u128) << (8 * i);
        }
        Some(v)
    }

    fn ptr_at(&self, alloc: &Allocation, off: Size) -> Option<AllocId> {
        for (o, prov) in alloc.provenance().ptrs().iter() {
            if *o == off {
                return Some(prov.alloc_id());
            }
        }
        None
    }

    fn decode(&self, alloc: &Allocation, off: Size, t: Ty<'tcx>, depth: usize) -> String {
        if depth > 6 {
            return "{\"deep\":true}".into();
        }
        let layout = match self.tcx.layout_of(self.env.as_query_input(t)) {
            Ok(l) => l,
            Err(_) => return "{\"nolayout\":true}".into(),
        };
        match t.kind() {
            ty::Bool | ty::Int(_) | ty::Uint(_) | ty::Char => {
                match self.read_uint(alloc, off, layout.size) {
                    Some(v) => {
                        let bits = layout.size.bits();
                        let sv: String = if let ty::Int(_) = t.kind() {
                            let sh = 128 - bits;
                            (((v << sh) as i128) >> sh).to_string()
                        } else {
                            v.to_string()
                        };
                        format!("\"{}\"", sv)
                    }
                    None => "null".into(),
                }
            }
            ty::Float(f) => match self.read_uint(alloc, off, layout.size) {
                Some(v) => format!("{{\"fbits\":\"{}\",\"w\":{}}}", v, f.bit_width()),
                None => "null".into(),
            },
            ty::Array(e, n) => {
                let n = n.try_to_target_usize(self.tcx).unwrap_or(0);
                let el = match self.tcx.layout_of(self.env.as_query_input(*e)) {
                    Ok(l) => l,
                    Err(_) => return "{\"nolayout\":true}".into(),
                };
                let mut v = Vec::with_capacity(n as usize);
                for i in 0..n {
                    v.push(self.decode(alloc, off + el.size * i, *e, depth + 1));
                }
                jlist(&v)
            }
            ty::Tuple(ts) => {
                let mut v = Vec::new();
                for (i, ft) in ts.iter().enumerate() {
                    let fo = layout.fields.offset(i);
                    v.push(self.decode(alloc, off + fo, ft, depth + 1));
                }
                jlist(&v)
            }
            ty::Adt(def, args) if def.is_struct() => {
                let mut v = Vec::new();
                if let FieldsShape::Arbitrary { .. } = layout.fields {
                    for (i, f) in def.non_enum_variant().fields.iter().enumerate() {
                        let ft = f.ty(self.tcx, args);
                        let ft = self.tcx.normalize_erasing_regions(self.env, ty::Unnormalized::new_wip(ft));
                        let fo = layout.fields.offset(i);
                        v.push(format!(
                            "{}:{}",
                            jstr(f.name.as_str()),
                            self.decode(alloc, off + fo, ft, depth + 1)
                        ));
                    }
                }
                format!("{{{}}}", v.join(","))
            }
            ty::Ref(_, inner, _) | ty::RawPtr(inner, _) => {
                let psz = self.tcx.data_layout.pointer_size();
                let target = match self.ptr_at(alloc, off) {
                    Some(a) => a,
                    None => return "{\"ptr\":\"noprov\"}".into(),
                };
                let toff = self.read_uint(alloc, off, psz).unwrap_or(0) as u64;
                match self.tcx.global_alloc(target) {
                    GlobalAlloc::Memory(m) => {
                        let ma = m.inner();
                        match inner.kind() {
                            ty::Slice(e) => {
                                let len = self.read_uint(alloc, off + psz, psz).unwrap_or(0) as u64;
                                let el = match self.tcx.layout_of(self.env.as_query_input(*e)) {
                                    Ok(l) => l,
                                    Err(_) => return "{\"nolayout\":true}".into(),
                                };
                                let mut v = Vec::new();
                                for i in 0..len {
                                    v.push(self.decode(
                                        ma,
                                        Size::from_bytes(toff) + el.size * i,
                                        *e,
                                        depth + 1,
                                    ));
                                }
                                format!("{{\"slice\":{}}}", jlist(&v))
                            }
                            ty::Str => "{\"str\":true}".into(),
                            _ => format!(
                                "{{\"ref\":{}}}",
                                self.decode(ma, Size::from_bytes(toff), *inner, depth + 1)
                            ),
                        }
                    }
                    GlobalAlloc::Static(d) => {
                        format!("{{\"static\":{}}}", jstr(&self.tcx.def_path_str(d)))
                    }
                    _ => "{\"ptr\":\"other\"}".into(),
                }
            }
            ty::Adt(def, args) if def.is_enum() => {
                // which variant is stored (direct tag or niche), then its fields
                let vidx: Option<VariantIdx> = match &layout.variants {
                    Variants::Single { index } => Some(*index),
                    Variants::Multiple { tag, tag_encoding, tag_field, .. } => {
                        let toff = off + layout.fields.offset(tag_field.as_usize());
                        let tsize = tag.size(&self.tcx);
                        match tag_encoding {
                            TagEncoding::Direct => match self.read_uint(alloc, toff, tsize) {
                                Some(v) => {
                                    let bits = tsize.bits();
                                    let mask: u128 = if bits >= 128 { u128::MAX } else { (1u128 << bits) - 1 };
                                    def.discriminants(self.tcx).find(|(_, d)| (d.val & mask) == (v & mask)).map(|(i, _)| i)
                                }
                                None => None,
                            },
                            TagEncoding::Niche { untagged_variant, niche_variants, niche_start } => {
                                if self.ptr_at(alloc, toff).is_some() {
                                    Some(*untagged_variant)
                                } else {
                                    match self.read_uint(alloc, toff, tsize) {
                                        Some(v) => {
                                            let bits = tsize.bits();
                                            let mask: u128 = if bits >= 128 { u128::MAX } else { (1u128 << bits) - 1 };
                                            let rel = v.wrapping_sub(*niche_start) & mask;
                                            let span = (niche_variants.end().as_u32() - niche_variants.start().as_u32()) as u128;
                                            if rel <= span {
                                                Some(VariantIdx::from_u32(niche_variants.start().as_u32() + rel as u32))
                                            } else {
                                                Some(*untagged_variant)
                                            }
                                        }
                                        None => None,
                                    }
                                }
                            }
                        }
                    }
                    _ => None,
                };
                match vidx {
                    Some(vi) => {
                        let vl = layout.for_variant(&rustc_middle::ty::layout::LayoutCx::new(self.tcx, self.env), vi);
                        let mut v = Vec::new();
                        for (i, f) in def.variant(vi).fields.iter().enumerate() {
                            let ft = f.ty(self.tcx, args);
                            let ft = self.tcx.normalize_erasing_regions(self.env, ty::Unnormalized::new_wip(ft));
                            let fo = vl.fields.offset(i);
                            v.push(self.decode(alloc, off + fo, ft, depth + 1));
                        }
                        format!("{{\"enum_variant\":{},\"fields\":{}}}", vi.as_usize(), jlist(&v))
                    }
                    None => format!("{{\"undecoded\":{}}}", jstr(&format!("{:?}", t))),
                }
            }
            _ => format!("{{\"undecoded\":{}}}", jstr(&format!("{:?}", t))),
        }
    }

    fn decode_const_value(&self, v: ConstValue, t: Ty<'tcx>) -> String {
        match v {
            ConstValue::Scalar(Scalar::Int(i)) => {
                let bits = i.to_bits_unchecked();
                match t.kind() {
                    ty::Int(_) => {
                        let w = i.size().bits();
                        let sh = 128 - w;
                        format!("\"{}\"", (((bits << sh) as i128) >> sh))
                    }
                    ty::Float(f) => format!("{{\"fbits\":\"{}\",\"w\":{}}}", bits, f.bit_width()),
                    _ => format!("\"{}\"", bits),
                }
            }
            ConstValue::Scalar(Scalar::Ptr(p, _)) => {
                let (prov, off) = p.into_raw_parts();
                match self.tcx.global_alloc(prov.alloc_id()) {
                    GlobalAlloc::Memory(m) => match t.kind() {
                        ty::Ref(_, inner, _) | ty::RawPtr(inner, _) => {
                            format!("{{\"ref\":{}}}", self.decode(m.inner(), off, *inner, 0))
                        }
                        _ => "{\"ptr\":\"untyped\"}".into(),
                    },
                    GlobalAlloc::Static(d) => {
                        format!("{{\"static\":{}}}", jstr(&self.tcx.def_path_str(d)))
                    }
                    GlobalAlloc::Function { instance } => {
                        format!("{{\"fnptr\":{}}}", jstr(&format!("{}", instance)))
                    }
                    _ => "{\"ptr\":\"other\"}".into(),
                }
            }
            ConstValue::ZeroSized => "{\"zst\":true}".into(),
            ConstValue::Indirect { alloc_id, offset } => match self.tcx.global_alloc(alloc_id) {
                GlobalAlloc::Memory(m) => self.decode(m.inner(), offset, t, 0),
                _ => "{\"indirect\":\"other\"}".into(),
            },
            ConstValue::Slice { alloc_id, meta } => match self.tcx.global_alloc(alloc_id) {
                GlobalAlloc::Memory(m) => match t.kind() {
                    ty::Ref(_, inner, _) => match inner.kind() {
                        ty::Slice(e) => {
                            let el = self.tcx.layout_of(self.env.as_query_input(*e)).unwrap();
                            let mut v = Vec::new();
                            for i in 0..meta {
                                v.push(self.decode(m.inner(), el.size * i, *e, 1));
                            }
                            format!("{{\"slice\":{}}}", jlist(&v))
                        }
                        _ => "{\"str\":true}".into(),
                    },
                    _ => "{\"slice\":\"untyped\"}".into(),
                },
                _ => "{\"slice\":\"other\"}".into(),
            },
        }
    }

    // ------------------------------------------------------------------
    // MIR serialisation
    // ------------------------------------------------------------------
    fn place(&self, body: &mir::Body<'tcx>, p: &Place<'tcx>) -> String {
        let mut s = format!("{{\"l\":{},\"p\":[", p.local.as_usize());
        let mut first = true;
        let mut cur = mir::PlaceTy::from_ty(body.local_decls[p.local].ty);
        for e in p.projection.iter() {
            if !first {
                s.push(',');
            }
            first = false;
            match e {
                ProjectionElem::Deref => s.push_str("\"deref\""),
                ProjectionElem::Field(f, _) => {
                    let _ = write!(s, "{{\"f\":{}}}", f.as_usize());
                }
                ProjectionElem::Index(l) => {
                    let _ = write!(s, "{{\"idx\":{}}}", l.as_usize());
                }
                ProjectionElem::ConstantIndex { offset, from_end, .. } => {
                    let _ = write!(s, "{{\"cidx\":{},\"from_end\":{}}}", offset, from_end);
                }
                ProjectionElem::Subslice { from, to, from_end } => {
                    let _ = write!(s, "{{\"sub\":[{},{}],\"from_end\":{}}}", from, to, from_end);
                }
                ProjectionElem::Downcast(_, v) => {
                    let _ = write!(s, "{{\"variant\":{}}}", v.as_usize());
                }
                other => {
                    let _ = write!(s, "{{\"otherproj\":{}}}", jstr(&format!("{:?}", other)));
                }
            }
            cur = cur.projection_ty(self.tcx, e);
        }
        let _ = write!(s, "],\"ty\":{}}}", self.ty(cur.ty));
        s
    }

    fn konst(&self, c: &mir::ConstOperand<'tcx>, work: &mut Option<&mut Vec<Instance<'tcx>>>) -> String {
        let t = c.const_.ty();
        let tys = self.ty(t);
        if let ty::FnDef(d, args) = t.kind() {
            let r = Instance::try_resolve(self.tcx, self.env, *d, args).ok().flatten();
            if let (Some(i), Some(w)) = (r, work.as_mut()) {
                w.push(i);
            }
            return format!(
                "{{\"const\":{{\"ty\":{},\"fn\":{},\"fnpath\":{}}}}}",
                tys,
                jstr(&r.map(|i| format!("{}", i)).unwrap_or_else(|| self.tcx.def_path_str(*d))),
                jstr(&self.tcx.def_path_str(*d))
            );
        }
        if let ty::Closure(d, _) = t.kind() {
            return format!(
                "{{\"const\":{{\"ty\":{},\"closure\":{}}}}}",
                tys,
                jstr(&self.tcx.def_path_str(*d))
            );
        }
        match c.const_.eval(self.tcx, self.env, c.span) {
            Ok(v) => {
                if let ty::Adt(ad, _) = t.kind() {
                    if ad.is_enum() {
                        if let Some(dc) = self.tcx.try_destructure_mir_constant_for_user_output(v, t) {
                            let fs: Vec<String> = dc.fields.iter().map(|(fv, ft)| self.decode_const_value(*fv, *ft)).collect();
                            return format!(
                                "{{\"const\":{{\"ty\":{},\"enum_variant\":{},\"fields\":{}}}}}",
                                tys,
                                dc.variant.map(|x| x.as_usize().to_string()).unwrap_or("null".into()),
                                jlist(&fs)
                            );
                        }
                    }
                }
                let d = self.decode_const_value(v, t);
                if let ConstValue::Scalar(Scalar::Int(_)) = v {
                    format!("{{\"const\":{{\"ty\":{},\"v\":{}}}}}", tys, d)
                } else {
                    format!("{{\"const\":{{\"ty\":{},\"val\":{}}}}}", tys, d)
                }
            }
            Err(_) => format!("{{\"const\":{{\"ty\":{},\"err\":true}}}}", tys),
        }
    }

    fn operand(
        &self,
        body: &mir::Body<'tcx>,
        o: &Operand<'tcx>,
        work: &mut Option<&mut Vec<Instance<'tcx>>>,
    ) -> String {
        match o {
            Operand::Copy(p) => format!("{{\"copy\":{}}}", self.place(body, p)),
            Operand::Move(p) => format!("{{\"move\":{}}}", self.place(body, p)),
            Operand::Constant(c) => self.konst(c, work),
            Operand::RuntimeChecks(rc) => format!(
                "{{\"const\":{{\"ty\":{{\"k\":\"bool\"}},\"v\":\"{}\",\"rtcheck\":{}}}}}",
                if rc.value(self.tcx.sess) { 1 } else { 0 },
                jstr(&format!("{:?}", rc))
            ),
            #[allow(unreachable_patterns)]
            other => format!("{{\"otherop\":{}}}", jstr(&format!("{:?}", other))),
        }
    }

    fn rvalue(
        &self,
        body: &mir::Body<'tcx>,
        rv: &Rvalue<'tcx>,
        work: &mut Option<&mut Vec<Instance<'tcx>>>,
    ) -> String {
        match rv {
            Rvalue::Use(o, ..) => format!("{{\"rv\":\"use\",\"a\":{}}}", self.operand(body, o, work)),
            Rvalue::BinaryOp(op, b) => format!(
                "{{\"rv\":\"bin\",\"op\":\"{:?}\",\"a\":{},\"b\":{}}}",
                op,
                self.operand(body, &b.0, work),
                self.operand(body, &b.1, work)
            ),
            Rvalue::UnaryOp(op, o) => format!(
                "{{\"rv\":\"un\",\"op\":\"{:?}\",\"a\":{}}}",
                op,
                self.operand(body, o, work)
            ),
            Rvalue::Cast(k, o, t) => {
                let from = o.ty(&body.local_decls, self.tcx);
                format!(
                    "{{\"rv\":\"cast\",\"kind\":{},\"a\":{},\"from\":{},\"to\":{}}}",
                    jstr(&format!("{:?}", k)),
                    self.operand(body, o, work),
                    self.ty(from),
                    self.ty(*t)
                )
            }
            Rvalue::Ref(_, bk, p) => format!(
                "{{\"rv\":\"ref\",\"bk\":{},\"place\":{}}}",
                jstr(&format!("{:?}", bk)),
                self.place(body, p)
            ),
            Rvalue::RawPtr(k, p) => format!(
                "{{\"rv\":\"rawptr\",\"bk\":{},\"place\":{}}}",
                jstr(&format!("{:?}", k)),
                self.place(body, p)
            ),
            Rvalue::Discriminant(p) => {
                format!("{{\"rv\":\"discr\",\"place\":{}}}", self.place(body, p))
            }
            Rvalue::Aggregate(k, ops) => {
                let kind = match &**k {
                    mir::AggregateKind::Tuple => "{\"agg\":\"tuple\"}".to_string(),
                    mir::AggregateKind::Array(_) => "{\"agg\":\"array\"}".to_string(),
                    mir::AggregateKind::Adt(d, v, _, _, _) => format!(
                        "{{\"agg\":\"adt\",\"name\":{},\"variant\":{},\"enum\":{}}}",
                        jstr(&self.tcx.def_path_str(*d)),
                        v.as_usize(),
                        self.tcx.adt_def(*d).is_enum()
                    ),
                    mir::AggregateKind::Closure(d, _) => format!(
                        "{{\"agg\":\"closure\",\"name\":{}}}",
                        jstr(&self.tcx.def_path_str(*d))
                    ),
                    other => format!("{{\"agg\":\"other\",\"s\":{}}}", jstr(&format!("{:?}", other))),
                };
                let os: Vec<String> = ops.iter().map(|o| self.operand(body, o, work)).collect();
                format!("{{\"rv\":\"agg\",\"kind\":{},\"ops\":{}}}", kind, jlist(&os))
            }
            Rvalue::Repeat(o, n) => format!(
                "{{\"rv\":\"repeat\",\"a\":{},\"n\":{}}}",
                self.operand(body, o, work),
                n.try_to_target_usize(self.tcx)
                    .map(|x| x.to_string())
                    .unwrap_or("null".into())
            ),
            Rvalue::CopyForDeref(p) => {
                format!("{{\"rv\":\"use\",\"a\":{{\"copy\":{}}}}}", self.place(body, p))
            }
            other => format!("{{\"rv\":\"other\",\"s\":{}}}", jstr(&format!("{:?}", other))),
        }
    }

    fn callee_info(
        &self,
        body: &mir::Body<'tcx>,
        func: &Operand<'tcx>,
        resolve: bool,
    ) -> (Option<Instance<'tcx>>, String) {
        let fty = func.ty(&body.local_decls, self.tcx);
        if let ty::FnDef(cd, cargs) = fty.kind() {
            let sig = self.tcx.fn_sig(*cd).skip_binder();
            let is_unsafe = sig.safety().is_unsafe();
            let inst = if resolve {
                Instance::try_resolve(self.tcx, self.env, *cd, cargs).ok().flatten()
            } else {
                None
            };
            let mut s = format!(
                "\"name\":{},\"dname\":{},\"ckrate\":{},\"cargs\":{},\"unsafe\":{}",
                jstr(&self.tcx.def_path_str(*cd)),
                jstr(&self.dpath(*cd)),
                jstr(&self.krate_of(*cd)),
                jstr(&format!("{:?}", cargs)),
                is_unsafe
            );
            if let Some(parent) = self.tcx.opt_parent(*cd) {
                if matches!(self.tcx.def_kind(parent), DefKind::Trait) {
                    let _ = write!(s, ",\"trait\":{}", jstr(&self.tcx.def_path_str(parent)));
                }
            }
            (inst, s)
        } else {
            (
                None,
                format!("\"name\":{},\"indirect\":true", jstr(&format!("{:?}", fty))),
            )
        }
    }
}

// ----------------------------------------------------------------------
// monomorphic export
// ----------------------------------------------------------------------
fn export_mono<'tcx>(cx: &Cx<'tcx>, out: &mut String) {
    let tcx = cx.tcx;
    let env = cx.env;
    let mut work: VecDeque<Instance<'tcx>> = VecDeque::new();
    let mut ids: HashMap<Instance<'tcx>, usize> = HashMap::new();
    let mut order: Vec<Instance<'tcx>> = Vec::new();
    let mut roots: Vec<String> = Vec::new();
    for ldid in tcx.hir_body_owners() {
        let did = ldid.to_def_id();
        if !matches!(tcx.def_kind(did), DefKind::Fn) {
            continue;
        }
        if tcx.generics_of(did).count() != 0 {
            continue;
        }
        let name = tcx.item_name(did);
        let full = tcx.def_path_str(did);
        let extra = std::env::var("MLX_EXTRA_ROOTS").unwrap_or_default();
        if !name.as_str().starts_with("root_") && !extra.split(',').any(|e| e == full) {
            continue;
        }
        let inst = Instance::mono(tcx, did);
        if !ids.contains_key(&inst) {
            ids.insert(inst, order.len());
            roots.push(format!("[{},{}]", jstr(&full), order.len()));
            order.push(inst);
            work.push_back(inst);
        }
    }
    out.push_str("\"mono_roots\":");
    out.push_str(&jlist(&roots));
    out.push_str(",\n\"mono\":[\n");
    let mut firstfn = true;
    // breadth-first; ids assigned on discovery
    let mut get_id = |i: Instance<'tcx>,
                      ids: &mut HashMap<Instance<'tcx>, usize>,
                      order: &mut Vec<Instance<'tcx>>,
                      work: &mut VecDeque<Instance<'tcx>>|
     -> usize {
        if let Some(x) = ids.get(&i) {
            return *x;
        }
        let n = order.len();
        ids.insert(i, n);
        order.push(i);
        work.push_back(i);
        n
    };
    while let Some(inst) = work.pop_front() {
        let my_id = ids[&inst];
        let did = inst.def_id();
        let mut leaf: Option<&str> = None;
        match inst.def {
            ty::InstanceKind::Intrinsic(_) => leaf = Some("intrinsic"),
            ty::InstanceKind::Virtual(..) => leaf = Some("virtual"),
            _ => {}
        }
        if leaf.is_none() {
            if let ty::InstanceKind::Item(_) = inst.def {
                if !tcx.is_mir_available(did) {
                    leaf = Some("nomir");
                }
            }
        }
        if !firstfn {
            out.push_str(",\n");
        }
        firstfn = false;
        let kind = match inst.def {
            ty::InstanceKind::Item(_) => "item",
            ty::InstanceKind::Intrinsic(_) => "intrinsic",
            ty::InstanceKind::Virtual(..) => "virtual",
            ty::InstanceKind::FnPtrShim(..) => "fnptrshim",
            ty::InstanceKind::ClosureOnceShim { .. } => "closureonceshim",
            ty::InstanceKind::DropGlue(..) => "dropglue",
            ty::InstanceKind::CloneShim(..) => "cloneshim",
            ty::InstanceKind::ReifyShim(..) => "reifyshim",
            _ => "othershim",
        };
        let is_unsafe = match tcx.def_kind(did) {
            DefKind::Fn | DefKind::AssocFn => tcx.fn_sig(did).skip_binder().safety().is_unsafe(),
            _ => false,
        };
        let _ = write!(
            out,
            "{{\"id\":{},\"name\":{},\"path\":{},\"dpath\":{},\"krate\":{},\"kind\":\"{}\",\"unsafe\":{},\"targs\":{}",
            my_id,
            jstr(&format!("{}", inst)),
            jstr(&tcx.def_path_str(did)),
            jstr(&cx.dpath(did)),
            jstr(tcx.crate_name(did.krate).as_str()),
            kind,
            is_unsafe,
            jlist(&inst.args.types().map(|t| cx.ty(t)).collect::<Vec<_>>())
        );
        if let Some(l) = leaf {
            let _ = write!(out, ",\"leaf\":{}}}", jstr(l));
            continue;
        }
        let body = tcx.instance_mir(inst.def);
        let body: mir::Body<'tcx> = inst.instantiate_mir_and_normalize_erasing_regions(
            tcx,
            env,
            EarlyBinder::bind(body.clone()),
        );
        let _ = write!(out, ",\"span\":{},\"argc\":{},\"locals\":[", cx.span(body.span), body.arg_count);
        for (i, d) in body.local_decls.iter().enumerate() {
            if i > 0 {
                out.push(',');
            }
            out.push_str(&cx.ty(d.ty));
        }
        out.push_str("],\"blocks\":[");
        let mut fnrefs: Vec<usize> = Vec::new();
        for (bi, bb) in body.basic_blocks.iter().enumerate() {
            if bi > 0 {
                out.push(',');
            }
            out.push_str("{\"s\":[");
            let mut fs = true;
            let mut found: Vec<Instance<'tcx>> = Vec::new();
            for st in &bb.statements {
                let mut w = Some(&mut found);
                let js = match &st.kind {
                    StatementKind::Assign(b) => {
                        let (p, rv) = &**b;
                        Some(format!(
                            "{{\"k\":\"assign\",\"place\":{},\"rv\":{},\"span\":{}}}",
                            cx.place(&body, p),
                            cx.rvalue(&body, rv, &mut w),
                            cx.span(st.source_info.span)
                        ))
                    }
                    StatementKind::SetDiscriminant { place, variant_index } => Some(format!(
                        "{{\"k\":\"setdiscr\",\"place\":{},\"variant\":{}}}",
                        cx.place(&body, place),
                        variant_index.as_usize()
                    )),
                    StatementKind::Intrinsic(b) => match &**b {
                        NonDivergingIntrinsic::Assume(o) => Some(format!(
                            "{{\"k\":\"assume\",\"a\":{}}}",
                            cx.operand(&body, o, &mut w)
                        )),
                        NonDivergingIntrinsic::CopyNonOverlapping(c) => Some(format!(
                            "{{\"k\":\"copy_nonoverlapping\",\"src\":{},\"dst\":{},\"count\":{},\"span\":{}}}",
                            cx.operand(&body, &c.src, &mut w),
                            cx.operand(&body, &c.dst, &mut w),
                            cx.operand(&body, &c.count, &mut w),
                            cx.span(st.source_info.span)
                        )),
                    },
                    StatementKind::StorageLive(_)
                    | StatementKind::StorageDead(_)
                    | StatementKind::Nop
                    | StatementKind::ConstEvalCounter
                    | StatementKind::Coverage(..)
                    | StatementKind::FakeRead(..)
                    | StatementKind::PlaceMention(..)
                    | StatementKind::AscribeUserType(..) => None,
                    other => Some(format!("{{\"k\":\"other\",\"s\":{}}}", jstr(&format!("{:?}", other)))),
                };
                if let Some(j) = js {
                    if !fs {
                        out.push(',');
                    }
                    fs = false;
                    out.push_str(&j);
                }
            }
            out.push_str("],\"t\":");
            let t = bb.terminator();
            let mut w = Some(&mut found);
            let tj = match &t.kind {
                TerminatorKind::Goto { target } => format!("{{\"k\":\"goto\",\"t\":{}}}", target.as_usize()),
                TerminatorKind::Return => "{\"k\":\"return\"}".to_string(),
                TerminatorKind::Unreachable => "{\"k\":\"unreachable\"}".to_string(),
                TerminatorKind::UnwindResume => "{\"k\":\"resume\"}".to_string(),
                TerminatorKind::UnwindTerminate(_) => "{\"k\":\"abort\"}".to_string(),
                TerminatorKind::SwitchInt { discr, targets } => {
                    let arms: Vec<String> = targets
                        .iter()
                        .map(|(v, b)| format!("[\"{}\",{}]", v, b.as_usize()))
                        .collect();
                    format!(
                        "{{\"k\":\"switch\",\"d\":{},\"arms\":{},\"otherwise\":{},\"span\":{}}}",
                        cx.operand(&body, discr, &mut w),
                        jlist(&arms),
                        targets.otherwise().as_usize(),
                        cx.span(t.source_info.span)
                    )
                }
                TerminatorKind::Drop { place, target, .. } => {
                    let pty = place.ty(&body.local_decls, tcx).ty;
                    let glue = Instance::resolve_drop_in_place(tcx, pty);
                    let gid = if let ty::InstanceKind::DropGlue(_, None) = glue.def {
                        "null".to_string()
                    } else {
                        get_id(glue, &mut ids, &mut order, &mut work).to_string()
                    };
                    format!(
                        "{{\"k\":\"drop\",\"place\":{},\"t\":{},\"glue\":{}}}",
                        cx.place(&body, place),
                        target.as_usize(),
                        gid
                    )
                }
                TerminatorKind::Assert { cond, expected, msg, target, .. } => {
                    let mkind = match &**msg {
                        mir::AssertKind::BoundsCheck { len, index } => format!(
                            "{{\"a\":\"bounds\",\"len\":{},\"index\":{}}}",
                            cx.operand(&body, len, &mut w),
                            cx.operand(&body, index, &mut w)
                        ),
                        mir::AssertKind::Overflow(op, l, r) => format!(
                            "{{\"a\":\"overflow\",\"op\":\"{:?}\",\"l\":{},\"r\":{}}}",
                            op,
                            cx.operand(&body, l, &mut w),
                            cx.operand(&body, r, &mut w)
                        ),
                        mir::AssertKind::OverflowNeg(o) => {
                            format!("{{\"a\":\"overflow_neg\",\"l\":{}}}", cx.operand(&body, o, &mut w))
                        }
                        mir::AssertKind::DivisionByZero(o) => {
                            format!("{{\"a\":\"div_zero\",\"l\":{}}}", cx.operand(&body, o, &mut w))
                        }
                        mir::AssertKind::RemainderByZero(o) => {
                            format!("{{\"a\":\"rem_zero\",\"l\":{}}}", cx.operand(&body, o, &mut w))
                        }
                        other => format!("{{\"a\":\"other\",\"s\":{}}}", jstr(&format!("{:?}", other))),
                    };
                    format!(
                        "{{\"k\":\"assert\",\"cond\":{},\"expected\":{},\"msg\":{},\"t\":{},\"span\":{}}}",
                        cx.operand(&body, cond, &mut w),
                        expected,
                        mkind,
                        target.as_usize(),
                        cx.span(t.source_info.span)
                    )
                }
                TerminatorKind::Call { func, args, destination, target, .. } => {
                    let (ci, info) = cx.callee_info(&body, func, true);
                    let cid = match ci {
                        Some(i) => get_id(i, &mut ids, &mut order, &mut work).to_string(),
                        None => "null".to_string(),
                    };
                    let as_: Vec<String> = args.iter().map(|a| cx.operand(&body, &a.node, &mut w)).collect();
                    format!(
                        "{{\"k\":\"call\",\"callee\":{},{},\"args\":{},\"dest\":{},\"t\":{},\"span\":{}}}",
                        cid,
                        info,
                        jlist(&as_),
                        cx.place(&body, destination),
                        target.map(|b| b.as_usize().to_string()).unwrap_or("null".into()),
                        cx.span(t.source_info.span)
                    )
                }
                TerminatorKind::InlineAsm { .. } => {
                    format!("{{\"k\":\"asm\",\"span\":{}}}", cx.span(t.source_info.span))
                }
                other => format!("{{\"k\":\"other\",\"s\":{}}}", jstr(&format!("{:?}", other))),
            };
            out.push_str(&tj);
            out.push('}');
            // fn items mentioned as values (passed as Fn arguments)
            for f in found {
                let fid = get_id(f, &mut ids, &mut order, &mut work);
                if !fnrefs.contains(&fid) {
                    fnrefs.push(fid);
                }
            }
        }
        let _ = write!(out, "],\"fnrefs\":{:?}}}", fnrefs);
    }
    out.push_str("\n]");
}

// ----------------------------------------------------------------------
// polymorphic summary + items + constants (local crate)
// ----------------------------------------------------------------------
fn crates_in_ty<'tcx>(cx: &Cx<'tcx>, t: Ty<'tcx>, acc: &mut BTreeSet<String>) {
    for ga in t.walk() {
        if let Some(t) = ga.as_type() {
            match t.kind() {
                ty::Adt(d, _) => {
                    acc.insert(format!("{}|{}", cx.krate_of(d.did()), cx.tcx.def_path_str(d.did())));
                }
                ty::FnDef(d, _) | ty::Closure(d, _) | ty::Foreign(d) => {
                    acc.insert(format!("{}|{}", cx.krate_of(*d), cx.tcx.def_path_str(*d)));
                }
                ty::Alias(..) => {}
                _ => {}
            }
        }
    }
}

fn export_poly<'tcx>(cx: &Cx<'tcx>, out: &mut String) {
    let tcx = cx.tcx;
    out.push_str("\"bodies\":[\n");
    let mut first = true;
    for ldid in tcx.hir_body_owners() {
        let did = ldid.to_def_id();
        let dk = tcx.def_kind(did);
        if !matches!(dk, DefKind::Fn | DefKind::AssocFn | DefKind::Closure) {
            continue;
        }
        let body = tcx.optimized_mir(did);
        if !first {
            out.push_str(",\n");
        }
        first = false;
        let is_unsafe = match dk {
            DefKind::Fn | DefKind::AssocFn => tcx.fn_sig(did).skip_binder().safety().is_unsafe(),
            _ => false,
        };
        let vis = match dk {
            DefKind::Fn | DefKind::AssocFn => format!("{:?}", tcx.visibility(did)),
            _ => "closure".to_string(),
        };
        let _ = write!(
            out,
            "{{\"path\":{},\"dpath\":{},\"kind\":\"{:?}\",\"unsafe\":{},\"vis\":{},\"span\":{},",
            jstr(&tcx.def_path_str(did)),
            jstr(&cx.dpath(did)),
            dk,
            is_unsafe,
            jstr(&vis),
            cx.span(tcx.def_span(did))
        );
        // generic parameter names (own + parent)
        let gens = tcx.generics_of(did);
        let mut gnames = Vec::new();
        for i in 0..gens.count() {
            gnames.push(jstr(gens.param_at(i, tcx).name.as_str()));
        }
        let _ = write!(out, "\"generics\":{},", jlist(&gnames));
        let mut locals = Vec::new();
        let mut mentions: BTreeSet<String> = BTreeSet::new();
        for d in body.local_decls.iter() {
            locals.push(jstr(&format!("{:?}", d.ty)));
            crates_in_ty(cx, d.ty, &mut mentions);
        }
        let _ = write!(out, "\"locals\":{},", jlist(&locals));
        let mut calls = Vec::new();
        let mut casts = Vec::new();
        let mut statics = Vec::new();
        let mut asserts = Vec::new();
        let mut rawderefs = Vec::new();
        let mut fieldwrites = Vec::new();
        let mut fnvalues = Vec::new();
        let mut ptrcmps = Vec::new();
        let mut asm = 0usize;
        let mut none: Option<&mut Vec<Instance<'tcx>>> = None;
        let read_locals = {
            use rustc_middle::mir::visit::{MutatingUseContext, NonMutatingUseContext, PlaceContext, Visitor};
            struct Rd(BTreeSet<usize>);
            impl<'tcx> Visitor<'tcx> for Rd {
                fn visit_local(&mut self, l: mir::Local, ctx: PlaceContext, _loc: mir::Location) {
                    let is_read = match ctx {
                        PlaceContext::NonMutatingUse(NonMutatingUseContext::PlaceMention) => false,
                        PlaceContext::NonMutatingUse(_) => true,
                        PlaceContext::MutatingUse(MutatingUseContext::Borrow)
                        | PlaceContext::MutatingUse(MutatingUseContext::RawBorrow)
                        | PlaceContext::MutatingUse(MutatingUseContext::Projection) => true,
                        _ => false,
                    };
                    if is_read {
                        self.0.insert(l.as_usize());
                    }
                }
            }
            let mut r = Rd(BTreeSet::new());
            r.visit_body(body);
            r.0
        };
        let mut scan_operand = |o: &Operand<'tcx>, statics: &mut Vec<String>, fnvalues: &mut Vec<String>, mentions: &mut BTreeSet<String>| {
            if let Operand::Constant(c) = o {
                if let Some(sd) = c.check_static_ptr(tcx) {
                    statics.push(format!(
                        "{{\"path\":{},\"mut\":{}}}",
                        jstr(&tcx.def_path_str(sd)),
                        tcx.is_mutable_static(sd)
                    ));
                }
                crates_in_ty(cx, c.const_.ty(), mentions);
                if let ty::FnDef(d, a) = c.const_.ty().kind() {
                    fnvalues.push(format!(
                        "{{\"path\":{},\"krate\":{},\"args\":{}}}",
                        jstr(&tcx.def_path_str(*d)),
                        jstr(&cx.krate_of(*d)),
                        jstr(&format!("{:?}", a))
                    ));
                }
            }
        };
        for bb in body.basic_blocks.iter() {
            for st in &bb.statements {
                if let StatementKind::Assign(b) = &st.kind {
                    let (p, rv) = &**b;
                    // raw deref / field writes on the destination
                    let mut cur = mir::PlaceTy::from_ty(body.local_decls[p.local].ty);
                    let mut last_field: Option<(String, usize)> = None;
                    for e in p.projection.iter() {
                        match e {
                            ProjectionElem::Deref => {
                                if cur.ty.is_raw_ptr() {
                                    rawderefs.push(format!(
                                        "{{\"w\":true,\"span\":{}}}",
                                        cx.span(st.source_info.span)
                                    ));
                                }
                                last_field = None;
                            }
                            ProjectionElem::Field(f, _) => {
                                if let ty::Adt(ad, _) = cur.ty.kind() {
                                    last_field = Some((tcx.def_path_str(ad.did()), f.as_usize()));
                                } else {
                                    last_field = None;
                                }
                            }
                            _ => {}
                        }
                        cur = cur.projection_ty(tcx, e);
                    }
                    if let Some((a, f)) = last_field {
                        fieldwrites.push(format!("{{\"adt\":{},\"field\":{}}}", jstr(&a), f));
                    }
                    let mut scan_place_read = |pl: &Place<'tcx>| {
                        let mut cur = mir::PlaceTy::from_ty(body.local_decls[pl.local].ty);
                        for e in pl.projection.iter() {
                            if let ProjectionElem::Deref = e {
                                if cur.ty.is_raw_ptr() {
                                    rawderefs.push(format!(
                                        "{{\"w\":false,\"span\":{}}}",
                                        cx.span(st.source_info.span)
                                    ));
                                }
                            }
                            cur = cur.projection_ty(tcx, e);
                        }
                    };
                    match rv {
                        Rvalue::Use(o, ..) => {
                            scan_operand(o, &mut statics, &mut fnvalues, &mut mentions);
                            if let Operand::Copy(pl) | Operand::Move(pl) = o {
                                scan_place_read(pl);
                            }
                        }
                        Rvalue::Cast(k, o, t) => {
                            scan_operand(o, &mut statics, &mut fnvalues, &mut mentions);
                            let from = o.ty(&body.local_decls, tcx);
                            crates_in_ty(cx, *t, &mut mentions);
                            casts.push(format!(
                                "{{\"kind\":{},\"from\":{},\"to\":{},\"span\":{}}}",
                                jstr(&format!("{:?}", k)),
                                jstr(&format!("{:?}", from)),
                                jstr(&format!("{:?}", t)),
                                cx.span(st.source_info.span)
                            ));
                        }
                        Rvalue::BinaryOp(op, b2) => {
                            scan_operand(&b2.0, &mut statics, &mut fnvalues, &mut mentions);
                            scan_operand(&b2.1, &mut statics, &mut fnvalues, &mut mentions);
                            let lt = b2.0.ty(&body.local_decls, tcx);
                            if lt.is_raw_ptr() || matches!(lt.kind(), ty::FnPtr(..)) {
                                ptrcmps.push(format!(
                                    "{{\"op\":\"{:?}\",\"ty\":{},\"span\":{}}}",
                                    op,
                                    jstr(&format!("{:?}", lt)),
                                    cx.span(st.source_info.span)
                                ));
                            }
                        }
                        Rvalue::UnaryOp(_, o) | Rvalue::Repeat(o, _) => {
                            scan_operand(o, &mut statics, &mut fnvalues, &mut mentions);
                        }
                        Rvalue::Aggregate(_, ops) => {
                            for o in ops.iter() {
                                scan_operand(o, &mut statics, &mut fnvalues, &mut mentions);
                            }
                        }
                        Rvalue::Ref(_, _, pl) | Rvalue::RawPtr(_, pl) | Rvalue::Discriminant(pl) | Rvalue::CopyForDeref(pl) => {
                            scan_place_read(pl);
                        }
                        Rvalue::ThreadLocalRef(d) => {
                            statics.push(format!(
                                "{{\"path\":{},\"mut\":false,\"thread_local\":true}}",
                                jstr(&tcx.def_path_str(*d))
                            ));
                        }
                        _ => {}
                    }
                }
            }
            let t = bb.terminator();
            match &t.kind {
                TerminatorKind::Call { func, args, destination, .. } => {
                    let (_, info) = cx.callee_info(body, func, false);
                    let dest_used = destination.local.as_usize() == 0
                        || !destination.projection.is_empty()
                        || read_locals.contains(&destination.local.as_usize());
                    let ret_ty = destination.ty(&body.local_decls, tcx).ty;
                    let ret_kind = match ret_ty.kind() {
                        ty::Adt(ad, _) => match tcx.get_diagnostic_name(ad.did()) {
                            Some(n) if n.as_str() == "Option" => "option",
                            Some(n) if n.as_str() == "Result" => "result",
                            _ => "adt",
                        },
                        _ => "other",
                    };
                    if let ty::FnDef(d, a) = func.ty(&body.local_decls, tcx).kind() {
                        mentions.insert(format!("{}|{}", cx.krate_of(*d), tcx.def_path_str(*d)));
                        for ga in a.iter() {
                            if let Some(t) = ga.as_type() {
                                crates_in_ty(cx, t, &mut mentions);
                            }
                        }
                    }
                    let mut argtys = Vec::new();
                    for a in args.iter() {
                        scan_operand(&a.node, &mut statics, &mut fnvalues, &mut mentions);
                        argtys.push(jstr(&format!("{:?}", a.node.ty(&body.local_decls, tcx))));
                    }
                    calls.push(format!(
                        "{{{},\"argtys\":{},\"ret\":{},\"ret_kind\":\"{}\",\"dest_used\":{},\"span\":{}}}",
                        info,
                        jlist(&argtys),
                        jstr(&format!("{:?}", ret_ty)),
                        ret_kind,
                        dest_used,
                        cx.span(t.source_info.span)
                    ));
                }
                TerminatorKind::Assert { msg, .. } => {
                    let k = match &**msg {
                        mir::AssertKind::BoundsCheck { .. } => "bounds".to_string(),
                        mir::AssertKind::Overflow(op, ..) => format!("overflow:{:?}", op),
                        mir::AssertKind::OverflowNeg(_) => "overflow_neg".to_string(),
                        mir::AssertKind::DivisionByZero(_) => "div_zero".to_string(),
                        mir::AssertKind::RemainderByZero(_) => "rem_zero".to_string(),
                        _ => "other".to_string(),
                    };
                    asserts.push(format!("{{\"a\":{},\"span\":{}}}", jstr(&k), cx.span(t.source_info.span)));
                }
                TerminatorKind::InlineAsm { .. } => asm += 1,
                TerminatorKind::SwitchInt { discr, .. } => {
                    scan_operand(discr, &mut statics, &mut fnvalues, &mut mentions);
                }
                _ => {}
            }
        }
        let _ = none.take();
        let m: Vec<String> = mentions.iter().map(|s| jstr(s)).collect();
        let _ = write!(
            out,
            "\"calls\":{},\"casts\":{},\"statics\":{},\"asserts\":{},\"rawderefs\":{},\"fieldwrites\":{},\"fnvalues\":{},\"ptrcmps\":{},\"asm\":{},\"mentions\":{}}}",
            jlist(&calls),
            jlist(&casts),
            jlist(&statics),
            jlist(&asserts),
            jlist(&rawderefs),
            jlist(&fieldwrites),
            jlist(&fnvalues),
            jlist(&ptrcmps),
            asm,
            jlist(&m)
        );
    }
    out.push_str("\n]");
}

fn export_items<'tcx>(cx: &Cx<'tcx>, out: &mut String) {
    let tcx = cx.tcx;
    let mut items = Vec::new();
    let mut consts = Vec::new();
    let mut statics = Vec::new();
    let mut structs = Vec::new();
    let mut traits_with_consts: Vec<DefId> = Vec::new();
    for ldid in tcx.hir_crate_items(()).definitions() {
        let did = ldid.to_def_id();
        let dk = tcx.def_kind(did);
        let path = tcx.def_path_str(did);
        let vis = match dk {
            DefKind::Fn
            | DefKind::AssocFn
            | DefKind::Struct
            | DefKind::Const { .. }
            | DefKind::AssocConst { .. }
            | DefKind::Static { .. }
            | DefKind::Mod
            | DefKind::Trait
            | DefKind::Field => format!("{:?}", tcx.visibility(did)),
            _ => String::new(),
        };
        let mut extra = String::new();
        if let DefKind::ExternCrate = dk {
            if let Some(cnum) = tcx.extern_mod_stmt_cnum(ldid) {
                let _ = write!(extra, ",\"extern_crate\":{}", jstr(tcx.crate_name(cnum).as_str()));
            }
        }
        if matches!(dk, DefKind::Fn | DefKind::AssocFn) {
            let sig = tcx.fn_sig(did).skip_binder();
            let _ = write!(
                extra,
                ",\"unsafe\":{},\"sig\":{}",
                sig.safety().is_unsafe(),
                jstr(&format!("{:?}", sig.skip_binder()))
            );
            let mut m: BTreeSet<String> = BTreeSet::new();
            for t in sig.skip_binder().inputs_and_output.iter() {
                crates_in_ty(cx, t, &mut m);
            }
            let mv: Vec<String> = m.iter().map(|s| jstr(s)).collect();
            let _ = write!(extra, ",\"sig_mentions\":{}", jlist(&mv));
        }
        items.push(format!(
            "{{\"path\":{},\"kind\":\"{:?}\",\"vis\":{},\"span\":{}{}}}",
            jstr(&path),
            dk,
            jstr(&vis),
            cx.span(tcx.def_span(did)),
            extra
        ));
        match dk {
            DefKind::Struct => {
                let ad = tcx.adt_def(did);
                let mut fs = Vec::new();
                for f in ad.non_enum_variant().fields.iter() {
                    let fty = tcx.type_of(f.did).instantiate_identity().skip_norm_wip();
                    let fty = if tcx.generics_of(did).count() == 0 {
                        tcx.try_normalize_erasing_regions(cx.env, ty::Unnormalized::new_wip(fty)).unwrap_or(fty)
                    } else {
                        fty
                    };
                    let mut m: BTreeSet<String> = BTreeSet::new();
                    crates_in_ty(cx, fty, &mut m);
                    let mv: Vec<String> = m.iter().map(|s| jstr(s)).collect();
                    fs.push(format!(
                        "{{\"name\":{},\"vis\":{},\"ty\":{},\"mentions\":{}}}",
                        jstr(f.name.as_str()),
                        jstr(&format!("{:?}", f.vis)),
                        jstr(&format!("{:?}", fty)),
                        jlist(&mv)
                    ));
                }
                let has_drop = ad.has_dtor(tcx);
                structs.push(format!(
                    "{{\"path\":{},\"fields\":{},\"has_drop\":{}}}",
                    jstr(&path),
                    jlist(&fs),
                    has_drop
                ));
            }
            DefKind::Static { .. } => {
                let t = tcx.type_of(did).instantiate_identity().skip_norm_wip();
                let t = tcx.try_normalize_erasing_regions(cx.env, ty::Unnormalized::new_wip(t)).unwrap_or(t);
                let val = match tcx.eval_static_initializer(did) {
                    Ok(a) => cx.decode(a.inner(), Size::ZERO, t, 0),
                    Err(_) => "null".into(),
                };
                statics.push(format!(
                    "{{\"path\":{},\"ty\":{},\"mutable\":{},\"freeze\":{},\"thread_local\":{},\"value\":{}}}",
                    jstr(&path),
                    jstr(&format!("{:?}", t)),
                    tcx.is_mutable_static(did),
                    t.is_freeze(tcx, cx.env),
                    tcx.is_thread_local_static(did),
                    val
                ));
            }
            DefKind::Const { .. } | DefKind::AssocConst { .. } => {
                let g = tcx.generics_of(did);
                if g.count() != 0 {
                    // generic (trait-level) const: evaluated per impl below
                    if let Some(p) = tcx.opt_parent(did) {
                        if matches!(tcx.def_kind(p), DefKind::Trait) && !traits_with_consts.contains(&p) {
                            traits_with_consts.push(p);
                        }
                    }
                    continue;
                }
                let t = tcx.type_of(did).instantiate_identity().skip_norm_wip();
                let t = tcx.try_normalize_erasing_regions(cx.env, ty::Unnormalized::new_wip(t)).unwrap_or(t);
                let val = match tcx.const_eval_poly(did) {
                    Ok(v) => cx.decode_const_value(v, t),
                    Err(_) => "null".into(),
                };
                consts.push(format!(
                    "{{\"path\":{},\"ty\":{},\"value\":{}}}",
                    jstr(&path),
                    jstr(&format!("{:?}", t)),
                    val
                ));
            }
            _ => {}
        }
    }
    // trait consts evaluated at each implementing type
    for tr in traits_with_consts {
        let impls = tcx.all_impls(tr);
        for imp in impls {
            let self_ty = tcx.type_of(imp).instantiate_identity().skip_norm_wip();
            if tcx.generics_of(imp).count() != 0 {
                continue;
            }
            for ai in tcx.associated_items(tr).in_definition_order() {
                if !matches!(ai.kind, ty::AssocKind::Const { .. }) {
                    continue;
                }
                let args = tcx.mk_args(&[self_ty.into()]);
                let uv = mir::UnevaluatedConst::new(ai.def_id, args);
                let cty = tcx.type_of(ai.def_id).instantiate(tcx, args).skip_norm_wip();
                let val = match tcx.const_eval_resolve(cx.env, uv, rustc_span::DUMMY_SP) {
                    Ok(v) => cx.decode_const_value(v, cty),
                    Err(_) => "null".into(),
                };
                consts.push(format!(
                    "{{\"path\":{},\"ty\":{},\"value\":{},\"trait_const\":true}}",
                    jstr(&format!("<{:?} as {}>::{}", self_ty, tcx.def_path_str(tr), ai.name())),
                    jstr(&format!("{:?}", cty)),
                    val
                ));
            }
        }
    }
    let _ = write!(
        out,
        "\"items\":{},\n\"structs\":{},\n\"statics\":{},\n\"consts\":{}",
        jlist(&items),
        jlist(&structs),
        jlist(&statics),
        jlist(&consts)
    );
}

struct Cb;
impl rustc_driver::Callbacks for Cb {
    fn after_analysis<'tcx>(
        &mut self,
        _c: &rustc_interface::interface::Compiler,
        tcx: TyCtxt<'tcx>,
    ) -> Compilation {
        let dir = match std::env::var("MLX_FACTS_DIR") {
            Ok(d) => d,
            Err(_) => return Compilation::Continue,
        };
        let krate = tcx.crate_name(rustc_span::def_id::LOCAL_CRATE).to_string();
        let env = TypingEnv::fully_monomorphized();
        let cx = Cx { tcx, env };
        let mut out = String::from("{\n");
        let _ = write!(
            out,
            "\"crate\":{},\"features\":{},\n",
            jstr(&krate),
            jlist(
                &tcx.sess
                    .opts
                    .cg
                    .target_feature
                    .split(',')
                    .map(|s| jstr(s))
                    .collect::<Vec<_>>()
            )
        );
        let _ = write!(
            out,
            "\"debug_assertions\":{},\"overflow_checks\":{},\n",
            tcx.sess.opts.debug_assertions,
            tcx.sess.overflow_checks()
        );
        export_items(&cx, &mut out);
        out.push_str(",\n");
        export_poly(&cx, &mut out);
        let mono = std::env::var("MLX_MONO_CRATES").unwrap_or_default();
        if mono.split(',').any(|m| m == krate) {
            out.push_str(",\n");
            export_mono(&cx, &mut out);
        }
        out.push_str("\n}\n");
        let path = format!("{}/{}.json", dir, krate);
        std::fs::write(&path, out).unwrap();
        Compilation::Continue
    }
}

/// Remove `// ...` and `/* ... */` comments (outside string literals) from a source snippet.
fn strip_comments(src: &str) -> String {
    let b: Vec<char> = src.chars().collect();
    let mut out = String::with_capacity(src.len());
    let mut i = 0;
    while i < b.len() {
        let c = b[i];
        if c == '"' {
            // string literal: copy verbatim up to the closing quote
            out.push(c);
            i += 1;
            while i < b.len() {
                out.push(b[i]);
                if b[i] == '\\' && i + 1 < b.len() {
                    out.push(b[i + 1]);
                    i += 2;
                    continue;
                }
                if b[i] == '"' {
                    i += 1;
                    break;
                }
                i += 1;
            }
            continue;
        }
        if c == '/' && i + 1 < b.len() && b[i + 1] == '/' {
            while i < b.len() && b[i] != '\n' {
                i += 1;
            }
            out.push(' ');
            continue;
        }
        if c == '/' && i + 1 < b.len() && b[i + 1] == '*' {
            let mut depth = 1;
            i += 2;
            while i < b.len() && depth > 0 {
                if b[i] == '/' && i + 1 < b.len() && b[i + 1] == '*' {
                    depth += 1;
                    i += 2;
                } else if b[i] == '*' && i + 1 < b.len() && b[i + 1] == '/' {
                    depth -= 1;
                    i += 2;
                } else {
                    i += 1;
                }
            }
            out.push(' ');
            continue;
        }
        out.push(c);
        i += 1;
    }
    out
}

fn main() {
    let mut args: Vec<String> = std::env::args().collect();
    if args.len() > 1 && (args[1].ends_with("rustc") || args[1].contains("/rustc")) {
        args.remove(1);
    }
    rustc_driver::run_compiler(&args, &mut Cb);
}
