"""E3: effect, ownership and layering rules over fact groups 1, 3, 5.

Every rule is a function  rule(view) -> list[Hit].  A `view` wraps either the
library facts of one configuration or the positive-control fixture crate, so
the same code that must stay silent on minimal-lexical must fire on the
fixture (`/verif/fixtures/bad`) on every run.
"""
from .consts import Ob

PANIC_ENTRY = (
    "core::panicking::", "std::panicking::", "std::rt::", "core::option::unwrap_failed",
    "core::option::expect_failed", "core::result::unwrap_failed", "core::slice::index::slice_",
    "core::str::slice_error_fail", "core::panic::", "std::process::abort", "core::intrinsics::abort",
)


def nz(path):
    """def paths print as std::… in std crates and core::…/alloc::… in no_std crates: compare modulo that"""
    if path is None:
        return None
    return path.replace("std::", "core::").replace("alloc::", "core::")


def is_panic_entry(path):
    p = nz(path)
    return any(p.startswith(nz(x)) for x in PANIC_ENTRY)


class Hit:
    __slots__ = ("fn", "what", "span")

    def __init__(self, fn, what, span=None):
        self.fn = fn
        self.what = what
        self.span = span or {}

    @property
    def key(self):
        # stable under line shifts: function + normalised snippet
        return "%s :: %s" % (self.fn, self.what)

    @property
    def loc(self):
        return self.span.get("loc", "")


class View:
    def __init__(self, crate_facts, mono=None, mono_roots=None, krate=None):
        self.cf = crate_facts
        self.krate = krate or crate_facts["crate"]
        self.bodies = crate_facts["bodies"]
        self.items = crate_facts["items"]
        self.structs = crate_facts["structs"]
        self.statics = crate_facts["statics"]
        self.mono = mono or {}
        self.mono_roots = dict((n, i) for n, i in (mono_roots or []))


def lib_view(f):
    return View(f.lib, f.mono, f.roots["mono_roots"], "minimal_lexical")


def fixture_view(raw):
    return View(raw, {m["id"]: m for m in raw.get("mono", [])}, raw.get("mono_roots", []), "bad")


# ---------------------------------------------------------------------------
# mono call graph
# ---------------------------------------------------------------------------
def mono_edges(inst):
    out = []
    for b in inst.get("blocks", []):
        t = b["t"]
        if t["k"] == "call" and t.get("callee") is not None:
            out.append(t["callee"])
        elif t["k"] == "drop" and t.get("glue") is not None:
            out.append(t["glue"])
    out.extend(inst.get("fnrefs", []))
    return out


def mono_reach(mono, roots, follow_panic=False):
    seen = set()
    work = list(roots)
    while work:
        i = work.pop()
        if i in seen or i not in mono:
            continue
        seen.add(i)
        m = mono[i]
        if not follow_panic and is_panic_entry(m["path"]):
            continue
        work.extend(mono_edges(m))
    return seen


def indirect_calls(mono, reach):
    out = []
    for i in sorted(reach):
        m = mono[i]
        if m.get("leaf") == "virtual":
            out.append(Hit(m["name"], "virtual call target"))
        if is_panic_entry(m["path"]):
            continue
        for b in m.get("blocks", []):
            t = b["t"]
            if t["k"] == "call" and (t.get("indirect") or t.get("callee") is None):
                out.append(Hit(m["path"], "indirect call `%s`" % t["span"].get("snip", "")[:80], t["span"]))
    return out


# ---------------------------------------------------------------------------
# C15
# ---------------------------------------------------------------------------
ALLOC_NAMES = ("__rust_alloc", "__rust_realloc", "__rust_alloc_zeroed", "exchange_malloc", "std::alloc::", "alloc::alloc::")


def is_alloc_inst(m):
    return m["krate"] == "alloc" or any(x in m["name"] for x in ALLOC_NAMES) or any(nz(x) in nz(m["name"]) for x in ALLOC_NAMES[4:])


def r_mono_alloc(view, root_names):
    roots = [view.mono_roots[n] for n in root_names if n in view.mono_roots]
    reach = mono_reach(view.mono, roots)
    hits = []
    for i in sorted(reach):
        m = view.mono[i]
        if is_alloc_inst(m):
            hits.append(Hit(m["name"], "instance of crate `alloc` / allocator entry reachable from %s" % "+".join(root_names)))
    return hits, len(reach)


def _mention_hits(view, pred, what):
    hits = []
    n = 0
    for b in view.bodies:
        for m in b["mentions"]:
            n += 1
            kr, path = m.split("|", 1)
            if pred(kr, path):
                hits.append(Hit(b["path"], "%s `%s`" % (what, path), b["span"]))
    for it in view.items:
        for m in it.get("sig_mentions", []):
            n += 1
            kr, path = m.split("|", 1)
            if pred(kr, path):
                hits.append(Hit(it["path"], "%s `%s` in signature" % (what, path), it["span"]))
    for s in view.structs:
        for fld in s["fields"]:
            for m in fld["mentions"]:
                n += 1
                kr, path = m.split("|", 1)
                if pred(kr, path):
                    hits.append(Hit(s["path"] + "." + fld["name"], "%s `%s` in field type" % (what, path)))
    return hits, n


def r_poly_alloc_mention(view):
    return _mention_hits(view, lambda kr, p: kr == "alloc", "mentions alloc-crate item")


def r_extern_crate_alloc(view):
    hits = [Hit(it["path"], "extern crate alloc", it["span"]) for it in view.items if it.get("extern_crate") == "alloc"]
    return hits, len(view.items)


# ---------------------------------------------------------------------------
# C16
# ---------------------------------------------------------------------------
INTERIOR = ("::cell::", "::UnsafeCell", "::Cell<", "::RefCell", "::sync::atomic::", "::sync::Mutex", "::sync::RwLock", "::sync::Once", "::sync::LazyLock",
            "::sync::OnceLock", "::thread::LocalKey", "::thread::local_impl")


def r_mutable_globals(view):
    hits = []
    for s in view.statics:
        if s["mutable"]:
            hits.append(Hit(s["path"], "static mut"))
        if not s["freeze"]:
            hits.append(Hit(s["path"], "static with interior mutability (type %s)" % s["ty"]))
        if s["thread_local"]:
            hits.append(Hit(s["path"], "thread-local static"))
    for b in view.bodies:
        for st in b["statics"]:
            if st.get("mut") or st.get("thread_local"):
                hits.append(Hit(b["path"], "accesses mutable/thread-local static `%s`" % st["path"], b["span"]))
    return hits, len(view.statics) + sum(len(b["statics"]) for b in view.bodies)


def r_interior_mut(view):
    return _mention_hits(view, lambda kr, p: any(x in p for x in INTERIOR), "mentions interior-mutable/synchronisation type")


def r_address_dependence(view):
    hits = []
    n = 0
    for b in view.bodies:
        for c in b["casts"]:
            n += 1
            k = c["kind"]
            if k.startswith("PointerExposeProvenance") or k.startswith("PointerWithExposedProvenance"):
                hits.append(Hit(b["path"], "pointer/integer cast `%s`" % c["span"]["snip"][:60], c["span"]))
            if k.startswith("Transmute") and (c["from"].startswith(("&", "*")) != c["to"].startswith(("&", "*"))) and not c["span"]["exp"]:
                hits.append(Hit(b["path"], "transmute between pointer and non-pointer `%s -> %s`" % (c["from"], c["to"]), c["span"]))
        for p in b["ptrcmps"]:
            n += 1
            hits.append(Hit(b["path"], "raw pointer comparison/arithmetic `%s` (%s)" % (p["span"]["snip"][:60], p["op"]), p["span"]))
        for c in b["calls"]:
            n += 1
            nm = c["name"]
            if nm.endswith("fmt::Pointer::fmt") or "::addr" == nm[-6:] or nm.endswith("::expose_provenance") or "ptr::hash" in nm:
                hits.append(Hit(b["path"], "address-observing call `%s`" % nm, c["span"]))
    return hits, n


ITER_TRAITS = tuple(nz(x) for x in ("std::iter::Iterator", "std::iter::ExactSizeIterator", "std::iter::DoubleEndedIterator",
                                   "std::iter::TrustedLen", "std::iter::FusedIterator"))
ITER_FORBIDDEN = ("size_hint", "advance_by", "__iterator_get_unchecked", "len", "is_empty", "try_len", "advance_back_by")
TYPE_DISPATCH = ("std::any::TypeId::of", "std::any::type_name", "std::mem::size_of", "std::mem::align_of", "std::mem::size_of_val",
                 "std::mem::align_of_val", "std::mem::needs_drop", "std::any::Any::type_id", "core::any::TypeId::of",
                 "core::mem::size_of", "core::any::type_name", "std::intrinsics::type_id", "std::intrinsics::type_name",
                 "std::intrinsics::size_of")
TYPE_DISPATCH = tuple(sorted(set(nz(x) for x in TYPE_DISPATCH)))


def _mentions_generic(cargs, generics):
    if not cargs:
        return False
    return any(("%s/#" % g) in cargs for g in generics)


def r_iterator_discipline(view):
    """On values of a generic iterator type only sequence-determined methods may be called."""
    hits = []
    n = 0
    for b in view.bodies:
        gens = [g for g in b["generics"] if not g.startswith("'")]
        for c in b["calls"]:
            tr = nz(c.get("trait"))
            if tr in ITER_TRAITS and _mentions_generic(c.get("cargs"), gens):
                n += 1
                meth = c["name"].rsplit("::", 1)[-1]
                if meth in ITER_FORBIDDEN or tr.endswith("ExactSizeIterator") or tr.endswith("TrustedLen"):
                    hits.append(Hit(b["path"], "calls `%s` on a generic iterator (%s)" % (c["name"], c["cargs"]), c["span"]))
            if nz(c["name"]) in TYPE_DISPATCH and _mentions_generic(c.get("cargs"), gens):
                n += 1
                hits.append(Hit(b["path"], "type-dependent query `%s%s`" % (c["name"], c["cargs"]), c["span"]))
    return hits, n


UNINIT = ("MaybeUninit::<T>::assume_init", "MaybeUninit::<T>::assume_init_ref", "MaybeUninit::<T>::assume_init_mut",
          "MaybeUninit::<T>::assume_init_read", "mem::uninitialized", "mem::zeroed", "MaybeUninit::<T>::array_assume_init",
          "MaybeUninit::<T>::zeroed")


def r_uninit_read(view):
    hits = []
    n = 0
    for b in view.bodies:
        for c in b["calls"]:
            n += 1
            if any(c["name"].endswith(u) for u in UNINIT):
                hits.append(Hit(b["path"], "calls `%s`" % c["name"], c["span"]))
    return hits, n


def r_asm_confined(view, allowed_prefix=("fpu::",)):
    hits = []
    n = 0
    for b in view.bodies:
        n += 1
        if b["asm"] and not b["path"].startswith(allowed_prefix):
            hits.append(Hit(b["path"], "inline asm outside fpu module", b["span"]))
    return hits, n


def foreign_instances(view, root_names, allow):
    """reachable instances defined outside core / the library / the roots crate"""
    roots = [view.mono_roots[n] for n in root_names if n in view.mono_roots]
    reach = mono_reach(view.mono, roots)
    hits = []
    for i in sorted(reach):
        m = view.mono[i]
        if m["krate"] in ("core", "minimal_lexical", "roots", view.krate):
            continue
        if is_panic_entry(m["path"]):
            continue
        if allow(m):
            continue
        hits.append(Hit(m["name"], "reachable instance of crate `%s`" % m["krate"]))
    return hits, len(reach)


def crate_local_shape(view, root_name):
    """{crate-local fn path -> sorted set of (crate-local callee paths, Iterator methods called)} reachable from a root"""
    rid = view.mono_roots[root_name]
    reach = mono_reach(view.mono, [rid])
    shape = {}
    for i in reach:
        m = view.mono[i]
        if m["krate"] != "minimal_lexical":
            continue
        callees = set()
        for b in m.get("blocks", []):
            t = b["t"]
            if t["k"] == "call":
                if t.get("ckrate") == "minimal_lexical":
                    callees.add(t["name"])
                elif nz(t.get("trait")) in ITER_TRAITS or nz(t.get("trait")) in (nz("std::clone::Clone"), nz("std::iter::IntoIterator")):
                    callees.add(nz(t["name"]))
        shape.setdefault(m["path"], set()).update(callees)
    return shape


# ---------------------------------------------------------------------------
# C02 S-rule
# ---------------------------------------------------------------------------
def _ty_has_f64(t):
    if not isinstance(t, dict):
        return False
    if t.get("k") == "float":
        return t.get("bits") == 64
    for k in ("to", "elem"):
        if k in t and _ty_has_f64(t[k]):
            return True
    for e in t.get("elems", []) + t.get("targs", []):
        if _ty_has_f64(e):
            return True
    return False


def r_single_rounding(view, root_name):
    rid = view.mono_roots[root_name]
    reach = mono_reach(view.mono, [rid])
    hits = []
    n = 0
    for i in sorted(reach):
        m = view.mono[i]
        if is_panic_entry(m["path"]) or nz(m["path"]).startswith("core::fmt"):
            continue
        n += 1
        if any(_ty_has_f64(t) for t in m.get("targs", [])):
            hits.append(Hit(m["name"], "f64 in the generic arguments of an instance reachable from the f32 parser"))
        for li, t in enumerate(m.get("locals", [])):
            if _ty_has_f64(t):
                hits.append(Hit(m["name"], "local _%d has an f64 type" % li))
                break
        for b in m.get("blocks", []):
            for s in b["s"]:
                if s["k"] == "assign" and s["rv"]["rv"] == "cast" and s["rv"]["kind"].startswith("FloatToFloat"):
                    hits.append(Hit(m["name"], "float-to-float cast `%s`" % s["span"]["snip"][:60], s["span"]))
    return hits, n


def r_poly_double_round(view):
    hits = []
    n = 0
    for b in view.bodies:
        for c in b["casts"]:
            n += 1
            if c["kind"].startswith("FloatToFloat"):
                hits.append(Hit(b["path"], "float-to-float cast `%s` (%s -> %s)" % (c["span"]["snip"][:60], c["from"], c["to"]), c["span"]))
    return hits, n


# ---------------------------------------------------------------------------
# C12 item 1: no dropped failure
# ---------------------------------------------------------------------------
def r_dropped_failure(view):
    hits = []
    n = 0
    for b in view.bodies:
        for c in b["calls"]:
            if c.get("ckrate") != view.krate:
                continue
            if c["ret_kind"] not in ("option", "result"):
                continue
            n += 1
            if not c["dest_used"]:
                hits.append(Hit(b["path"], "result of `%s` (%s) is dropped unread: `%s`" % (c["name"], c["ret"], c["span"]["snip"][:60]), c["span"]))
    return hits, n


# ---------------------------------------------------------------------------
# C12 item 2: no carry component dropped (field-sensitive def-use on the monomorphic MIR)
# ---------------------------------------------------------------------------
def _ops_of_rvalue(rv):
    k = rv.get("rv")
    if k in ("use", "un", "cast", "repeat"):
        return [rv["a"]]
    if k == "bin":
        return [rv["a"], rv["b"]]
    if k == "agg":
        return list(rv["ops"])
    return []


def _place_reads(m):
    """yield every place that is read in instance m (operands, ref/discriminant places, switch/assert/call operands)"""
    for b in m["blocks"]:
        for s in b["s"]:
            if s["k"] != "assign":
                continue
            rv = s["rv"]
            for o in _ops_of_rvalue(rv):
                pl = o.get("copy") or o.get("move")
                if pl:
                    yield pl
            if rv.get("rv") in ("ref", "rawptr", "discr") and rv.get("place"):
                yield rv["place"]
        t = b["t"]
        ops = []
        if t["k"] == "call":
            ops = t["args"]
        elif t["k"] == "switch":
            ops = [t["d"]]
        elif t["k"] == "assert":
            ops = [t["cond"]]
        for o in ops:
            pl = o.get("copy") or o.get("move") if isinstance(o, dict) else None
            if pl:
                yield pl


def r_carry_components_used(facts, krate="minimal_lexical", fn_prefix="minimal_lexical::bigint::"):
    """For every call (inside functions whose dpath starts with fn_prefix) to an integer `overflowing_*` method or to a function of the
    same module that returns a tuple of two integers/bools (scalar_add, scalar_mul: value + carry), every component of the returned tuple
    is read somewhere in the caller, or the tuple is passed on whole (returned / moved).  A component that is never read is a carry that
    has been dropped."""
    hits, n = [], 0
    for m in facts.mono.values():
        if m.get("krate") != krate or "blocks" not in m or not m["dpath"].startswith(fn_prefix):
            continue
        reads = list(_place_reads(m))
        for b in m["blocks"]:
            t = b["t"]
            if t["k"] != "call" or t.get("callee") is None:
                continue
            c = facts.mono.get(t["callee"])
            if c is None:
                continue
            cp = nz(c["path"])
            is_ovf = ".overflowing_" in cp.replace("::overflowing_", ".overflowing_") and cp.startswith("core::num::")
            is_scalar = c.get("krate") == krate and c["dpath"].startswith(fn_prefix)
            dty = t["dest"]["ty"]
            if not (is_ovf or is_scalar) or dty.get("k") != "tuple" or len(dty["elems"]) != 2:
                continue
            if not all(e.get("k") in ("int", "bool") for e in dty["elems"]):
                continue
            n += 1
            d = t["dest"]
            if d["l"] == 0 and not d["p"]:
                continue                                   # returned whole
            used = set()
            whole = False
            for pl in reads:
                if pl["l"] != d["l"] or pl["p"][:len(d["p"])] != d["p"]:
                    continue
                rest = pl["p"][len(d["p"]):]
                if not rest:
                    whole = True
                elif isinstance(rest[0], dict) and "f" in rest[0]:
                    used.add(rest[0]["f"])
            if whole:
                continue
            for i in (0, 1):
                if i not in used:
                    hits.append(Hit(nz(m["path"]), "component .%d of the result of `%s` is never read: `%s`" % (i, cp, (t.get("span") or {}).get("snip", "")[:70]), t.get("span")))
    return hits, n


# ---------------------------------------------------------------------------
# C08 item 1 / C13 item 1: inventories
# ---------------------------------------------------------------------------
def unsafe_inventory(view):
    inv = []
    for b in view.bodies:
        for c in b["calls"]:
            if c.get("unsafe"):
                inv.append(("call", b["path"], c["name"], c["span"]))
        for r in b["rawderefs"]:
            inv.append(("rawderef-w" if r["w"] else "rawderef-r", b["path"], r["span"]["snip"][:60], r["span"]))
        for st in b["statics"]:
            if st.get("mut"):
                inv.append(("static-mut", b["path"], st["path"], b["span"]))
        if b["asm"]:
            inv.append(("asm", b["path"], "asm", b["span"]))
    return inv


def field_writers(view, adt):
    """functions that assign a field of `adt` directly"""
    out = {}
    for b in view.bodies:
        for fw in b["fieldwrites"]:
            if fw["adt"] == adt:
                out.setdefault(b["path"], set()).add(fw["field"])
    return out


FN_TRAITS = ("core::ops::Fn", "core::ops::FnMut", "core::ops::FnOnce")


def r_must_consult_callback(view, dpaths):
    """in each instance of the given generic functions, every path from entry to `return` calls the callback
    (a call through Fn/FnMut/FnOnce); a path that returns without it decides the result alone"""
    hits = []
    n = 0
    for m in view.mono.values():
        if m.get("dpath") not in dpaths or "blocks" not in m:
            continue
        n += 1
        blocks = m["blocks"]
        cb_blocks = set()
        for i, b in enumerate(blocks):
            t = b["t"]
            if t["k"] == "call" and nz(t.get("trait")) in FN_TRAITS:
                cb_blocks.add(i)
        if not cb_blocks:
            hits.append(Hit(m["dpath"], "no call through its callback at all in instance %s" % m["name"][:80], m.get("span")))
            continue
        seen, work = set(), [0]
        bad = None
        while work:
            i = work.pop()
            if i in seen:
                continue
            seen.add(i)
            if i in cb_blocks:
                continue          # paths through the callback are fine: do not follow
            t = blocks[i]["t"]
            k = t["k"]
            if k == "return":
                bad = i
                break
            if k == "goto":
                work.append(t["t"])
            elif k == "switch":
                work.extend(a[1] for a in t["arms"])
                work.append(t["otherwise"])
            elif k in ("call", "assert", "drop") and t.get("t") is not None:
                work.append(t["t"])
        if bad is not None:
            hits.append(Hit(m["dpath"], "a path reaches `return` (bb%d) without calling the callback" % bad, m.get("span")))
    return hits, n


def r_heapvec_capacity(view, root_names, min_cap):
    """alloc configurations: every reachable function that constructs a HeapVec reserves at least BIGINT_LIMBS
    (shl_limbs consults capacity() and reports failure beyond it, so a smaller reservation turns valid input into a panic)"""
    roots = [view.mono_roots[n] for n in root_names if n in view.mono_roots]
    reach = mono_reach(view.mono, roots)
    hits = []
    n = 0
    for i in sorted(reach):
        m = view.mono[i]
        builds = False
        caps = []
        for b in m.get("blocks", []):
            for st in b["s"]:
                if st["k"] == "assign" and st["rv"]["rv"] == "agg":
                    k = st["rv"]["kind"]
                    if k.get("agg") == "adt" and k.get("name", "").endswith("heapvec::HeapVec"):
                        builds = True
            t = b["t"]
            if t["k"] == "call" and nz(t.get("name", "")).endswith("Vec::<T>::with_capacity"):
                a0 = t["args"][0] if t["args"] else {}
                c = a0.get("const", {})
                caps.append(int(c["v"]) if "v" in c else None)
        if builds:
            n += 1
            if not caps or any(c is None or c < min_cap for c in caps):
                hits.append(Hit(m["dpath"], "constructs a HeapVec without reserving BIGINT_LIMBS=%d (with_capacity arguments: %s)" % (min_cap, caps), m.get("span")))
    return hits, n


def r_wrapping_arith(view, prefix, allowed):
    """calls to wrapping_* integer arithmetic inside the given module, outside the audited idiom list"""
    hits = []
    n = 0
    for b in view.bodies:
        d = b.get("dpath", "")
        if not d.startswith(prefix):
            continue
        for c in b["calls"]:
            nm = nz(c["name"])
            n += 1          # call sites scanned (the rule's expected hit count is zero; its positive control lives in the fixture)
            if nm.startswith("core::num::") and "::wrapping_" in nm:
                if "<impl usize>" in nm:
                    continue        # index arithmetic (its result is bounds-checked where it is used): not limb arithmetic
                key = (d, c["span"]["snip"])
                if key not in allowed:
                    hits.append(Hit(d, "wrapping arithmetic `%s` (%s)" % (c["span"]["snip"][:70], nm.rsplit("::", 1)[-1]), c["span"]))
    return hits, n


# ---------------------------------------------------------------------------
def hits_to_obs(rule_id, rule_text, hits, scanned, group_prefix=""):
    """library side: each hit is a failing obligation; plus one summary obligation."""
    obs = [Ob("%s: scanned" % rule_id, True, "%d sites scanned, %d hits" % (scanned, len(hits)), rule_text)]
    for h in hits:
        obs.append(Ob("%s: %s" % (rule_id, h.key), False, h.what, rule_text, "%s (%s)" % (h.fn, h.loc)))
    return obs


def control_obs(rule_id, rule_text, hits, expect_fn):
    """fixture side: the rule must fire in `expect_fn`."""
    fired = [h for h in hits if h.fn == expect_fn or h.fn.startswith(expect_fn)]
    return Ob("control %s fires on fixtures/bad::%s" % (rule_id, expect_fn), bool(fired),
              "%d hits in control function (%d in fixture)" % (len(fired), len(hits)),
              "CTL:a rule whose expected count is zero must fire on its positive control")
