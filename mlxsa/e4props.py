"""Property checks built on E4 (abstract interpreter): obligations -> verdicts with the audited-site table."""
import os
import sys

from . import consts as K
from .absint.jobs import run_jobs

VERIF = os.path.dirname(os.path.dirname(os.path.abspath(__file__)))
sys.path.insert(0, VERIF)

KINDS = {
    # valid input never panics (dbg MIR): every panic-capable construct
    "C04": lambda k: k.startswith(("assert:", "panic", "index-in-bounds", "range-index-in-bounds", "pow-no-overflow",
                                   "unmodelled-call", "fixpoint-not-reached", "precondition of", "vector-invariant")),
    # arbitrary bytes, no undefined memory access: every unsafe operation
    "C08": lambda k: k.startswith(("get_unchecked-in-bounds", "raw-", "ptr-offset-in-bounds", "from_raw_parts", "inline-asm",
                                   "unmodelled-call", "fixpoint-not-reached", "precondition of", "vector-invariant")),
    "C13": lambda k: k.startswith(("raw-", "ptr-offset-in-bounds", "from_raw_parts", "vector-invariant", "unmodelled-call",
                                   "fixpoint-not-reached", "precondition of", "get_unchecked", "post:")),
    # no value-changing narrowing cast / wrapping arithmetic in exponent bookkeeping
    "C07": lambda k: k.startswith(("cast-value-preserving", "assert:overflow", "arith-no-wrap", "unmodelled-call", "fixpoint-not-reached")),
    "C06": lambda k: k.startswith(("post:", "unmodelled-call", "fixpoint-not-reached")),
    "C12": lambda k: k.startswith(("assert:overflow", "arith-no-wrap", "cast-value-preserving", "vector-invariant", "raw-", "ptr-offset", "precondition of", "post:hi64")),
    "C18": lambda k: k.startswith(("assert:", "panic", "post:")),
    "C11": lambda k: k.startswith(("post:", "assert:", "panic", "carry-test", "scale-consumed", "wrap-free")),
    "C14": lambda k: k.startswith(("pow-no-overflow",)),
    "C17": lambda k: k.startswith(("post:bits", "unmodelled-call", "fixpoint-not-reached")),
    "C19": lambda k: k.startswith(("assert:", "panic", "index-in-bounds", "range-index-in-bounds", "unmodelled-call", "fixpoint-not-reached", "post:")),
}


def norm_key(key):
    return key.replace("<f32>", "<F>").replace("<f64>", "<F>")


def load_audit():
    from audit.sites import AUDIT
    table = {}
    for e in AUDIT:
        table.setdefault(norm_key(e["key"]), []).append(e)
    return table


def eval_side(expr, facts_consts):
    """closed formula over extracted constants; names: F32_/F64_<CONST>, BIGINT_LIMBS, LIMB_BITS, table lengths"""
    env = {"__builtins__": {}}
    env.update(facts_consts)
    return bool(eval(expr, env))


def side_env(f):
    env = {}
    for fty in ("f32", "f64"):
        for k, v in f.consts.items():
            pre = "<%s as num::Float>::" % fty
            if k.startswith(pre) and isinstance(v, str):
                env["%s_%s" % (fty.upper(), k[len(pre):])] = int(v)
    for k in ("bigint::BIGINT_LIMBS", "bigint::LIMB_BITS", "bigint::BIGINT_BITS"):
        if k in f.consts:
            env[k.split("::")[1]] = int(f.consts[k])
    env["bits"] = lambda n: n.bit_length()
    env["max"] = max
    env["min"] = min
    return env


def collect(pid, results, group_of, fn_filter=None):
    """-> {group: {key: merged obligation dict}} restricted to the kinds of `pid`"""
    keep = KINDS[pid]
    out = {}
    errors = []
    for r in results:
        if "error" in r:
            errors.append((r["job"], r["error"]))
            continue
        g = group_of(r["job"])
        d = out.setdefault(g, {})
        for res in r["results"]:
            for o in res["obs"]:
                if not keep(o["kind"]):
                    continue
                if fn_filter is not None and not fn_filter(o):
                    continue
                k = o["key"]
                m = d.get(k)
                if m is None:
                    d[k] = dict(o)
                else:
                    m["proven"] += o["proven"]
                    m["failed"] += o["failed"]
                    m["visits"] += o["visits"]
                    m["fail_callers"] = sorted(set(m.get("fail_callers", [])) | set(o.get("fail_callers", [])))
                    if not m["detail"]:
                        m["detail"] = o["detail"]
    return out, errors


_KEEP_WORDS = {"as", "u8", "u16", "u32", "u64", "u128", "usize", "i8", "i16", "i32", "i64", "i128", "isize", "f32", "f64", "bool", "Limb", "Wide", "unwrap", "expect"}


def shape_key(k):
    """obligation key with the local identifiers of its snippet abstracted: `fn | kind | sci_exp + 1 - digits as i32` ->
    `fn | kind | _ + 1 - _ as i32`.  Used only as a fall-back so that renaming a local does not invalidate an audited entry."""
    import re
    parts = k.split(" | ")
    if len(parts) < 3:
        return k
    snip = " | ".join(parts[2:])
    # `a op= b` and `a op b` raise the same obligation (its kind names the operator): compound assignment is written as the plain operator
    snip = re.sub(r"(<<|>>|[-+*/%&|^])=(?!=)", r"\1", snip)
    # a lossless conversion spelled `u64::from(x)` / `x.into()` raises the same obligations as `x as u64`
    snip = re.sub(r"\b([iu](?:8|16|32|64|128|size))::from\(([A-Za-z_][A-Za-z0-9_.]*)\)", r"\2 as \1", snip)
    snip = re.sub(r"[A-Za-z_][A-Za-z0-9_]*", lambda m: m.group(0) if (m.group(0) in _KEEP_WORDS or m.group(0)[0].isupper()) else "_", snip)
    return " | ".join(parts[:2] + [snip])


def _matched(nk, audit):
    return nk in audit or any(wk.endswith("*") and nk.startswith(wk[:-1]) for wk in audit)


def _orphan(wk, F_, kind_, d):
    """audited key `wk` belongs to function F_ and kind kind_ and matches no obligation of the group `d`"""
    wp = wk.split(" | ")
    if len(wp) < 2 or wp[1] != kind_ or wp[0].replace("<F>", "") != F_.replace("<F>", ""):
        return False
    for kk in d:
        nk = norm_key(kk)
        if nk == wk or (wk.endswith("*") and nk.startswith(wk[:-1])):
            return False
    return True


def to_obs(pid, grouped, audit, side_envs, rule_of):
    """obligation dicts -> consts.Ob list per group; unproven + unaudited = failing"""
    per_group = {}
    stats = {"proven": 0, "audited": 0, "unproven": 0}
    audited_used = {}
    # fall-back index: audited entries by shape (identifiers abstracted); usable only where the shape is unambiguous on both sides
    shape_audit = {}
    for wk, es in audit.items():
        if not wk.endswith("*"):
            shape_audit.setdefault(shape_key(wk), []).append((wk, es))
    for g, d in grouped.items():
        obs = []
        failing_shapes = {}
        for k, o in d.items():
            if o["failed"] and norm_key(k) not in audit:
                failing_shapes.setdefault(shape_key(norm_key(k)), set()).add(norm_key(k))
        for k, o in sorted(d.items()):
            site = "%s (%s)" % (o["fn"], o["loc"])
            rule = rule_of(o["kind"])
            if not o["failed"]:
                stats["proven"] += 1
                obs.append(K.Ob(k, True, "proven on %d visits" % o["visits"], rule, site))
                continue
            # an entry may be restricted to the groups (configurations) whose name contains e["only"]
            cands = list(audit.get(norm_key(k), []))
            if not cands:
                # an entry whose key ends with `*` matches every obligation key with that prefix (used where only the spelling of an
                # argument may vary, e.g. `to_digit(*c).unwrap()` vs `to_digit(c).unwrap()`)
                nk = norm_key(k)
                for wk, es in audit.items():
                    if wk.endswith("*") and nk.startswith(wk[:-1]):
                        cands.extend(es)
            if not cands:
                # renamed locals: exactly one failing obligation and exactly one audited entry (itself unmatched in this group) share the shape
                sk = shape_key(norm_key(k))
                alts = [(wk, es) for wk, es in shape_audit.get(sk, []) if wk not in d and not any(norm_key(kk) == wk for kk in d)]
                if len(alts) == 1 and len(failing_shapes.get(sk, [])) == 1:
                    cands.extend(alts[0][1])
            moved_from = None
            if not cands:
                # extracted helper.  Accepted only when ALL of these hold (anything else stays a violation):
                #  - the obligation's function H has no audited entry of its own (it is not a function the table knows);
                #  - every failing visit was reached from ONE library function F;
                #  - F has audited entries of the same obligation kind that match nothing in this group any more (the audited
                #    operation left F), all with one and the same reason;
                #  - H has no more such failing obligations of that kind than F lost entries.
                fcs = o.get("fail_callers", [])
                nkp = norm_key(k).split(" | ")
                if len(fcs) == 1 and fcs[0] and len(nkp) >= 2:
                    F_, H_, kind_ = fcs[0], nkp[0], nkp[1]
                    h_known = any(wk.split(" | ")[0].replace("<F>", "") == H_.replace("<F>", "") for wk in audit)
                    lost = [es for wk, es in audit.items() if _orphan(wk, F_, kind_, d)]
                    n_h = sum(1 for kk, oo in d.items() if oo["failed"] and norm_key(kk).split(" | ")[:2] == [H_, kind_]
                              and not _matched(norm_key(kk), audit))
                    reasons = set(e["reason"] for es in lost for e in es)
                    if not h_known and lost and len(reasons) == 1 and n_h <= len(lost):
                        cands.extend(lost[0][:1])
                        moved_from = F_
            ents = [e for e in cands if pid in e.get("props", [pid]) and (not e.get("only") or e["only"] in g)]
            if ents:
                e = ents[0]
                ok = True
                why = "AUDITED: " + e["reason"]
                if moved_from:
                    why = "AUDITED (operation moved out of %s, whose entry of this kind no longer matches there): %s" % (moved_from, e["reason"])
                if e.get("side"):
                    try:
                        ok = eval_side(e["side"], side_envs[g])
                    except Exception as ex:           # a side condition that cannot be evaluated fails closed
                        ok = False
                        why += " | side condition error: %r" % (ex,)
                    why += " | side condition `%s` = %s" % (e["side"], ok)
                if ok:
                    stats["audited"] += 1
                    audited_used[norm_key(k)] = e["reason"]
                else:
                    stats["unproven"] += 1
                obs.append(K.Ob(k, ok, why, rule, site))
            else:
                stats["unproven"] += 1
                obs.append(K.Ob(k, False, "UNPROVEN (%d of %d visits): %s" % (o["failed"], o["visits"], o["detail"]), rule, site))
        per_group[g] = obs
    return per_group, stats, audited_used
