"""Per-property checks (composition of the engines)."""
import os
import sys
import traceback

from . import consts as K
from . import effects as E
from . import facts as F
from .report import Report
from .absint.jobs import run_jobs

A_TOOL = "rustc 1.97.0-nightly MIR at -Zmir-opt-level=0 and rustc's constant evaluator represent the source (driver: /verif/driver)"
A_TARGET = "target x86_64 (64-bit limbs); the 32-bit-limb cfg alternative never type-checks here"


def cfgs(tier, quick=None, thorough=None):
    if tier == "quick":
        return quick or F.QUICK_CONFIGS
    return thorough or F.ALL_CONFIGS


# ---------------------------------------------------------------------------
def check_C14(tier):
    rep = Report("C14", tier)
    fx = F.build_many([(c, "rel") for c in cfgs(tier)])
    n_tab = 0
    for (cfg, _), f in sorted(fx.items()):
        obs = K.table_rules(f)
        rep.add(cfg, obs)
        n_tab += len(obs)
        if "compact" in cfg:
            rep.floor("%s: bellerophon table obligations" % cfg, len(obs), 1 + 10 + 10 + 66 + 70)
        else:
            rep.floor("%s: table obligations" % cfg, len(obs), 1 + 651 + 28 + 20 + 2 + 11 + 23 + 1)
    # bundled libm (only compiled without std): split constants of powf/powd
    lcl = ["nostd_compact"] if tier == "quick" else [c for c in F.ALL_CONFIGS if c.startswith("nostd") and "compact" in c]
    lfx = F.build_many([(c, "rel") for c in lcl])
    for c in lcl:
        lobs = K.libm_rules(lfx[(c, "rel")])
        rep.add("%s libm" % c, lobs)
        rep.floor("%s: libm split-constant obligations" % c, len(lobs), 14)
    rep.analysed = {"configurations": sorted(c for c, _ in fx), "facts_sha": {c: f.sha[:16] for (c, _), f in fx.items()}}
    # on-demand integer powers (compact): u64::pow(e) is the exact power only if it cannot overflow -- E4 obligations `pow-no-overflow`
    pcl = ["compact"] if tier == "quick" else ["compact", "nostd_compact"]
    tg = ["minimal_lexical::number::{impl#0}::try_fast_path", "minimal_lexical::bigint::pow"] + ([] if tier == "quick" else ["minimal_lexical::slow::parse_mantissa"])
    jobs = [{"config": c, "mode": m, "model": "valid", "kind": "fn", "target": t} for c in pcl for m in ("dbg", "rel") for t in tg]
    results = run_jobs(jobs)
    pfx = F.build_many([(c, "rel") for c in pcl])
    _e4_report(rep, "C14", results, lambda j: "%s/%s on-demand powers" % (j["config"], j["mode"]),
               {"%s/%s on-demand powers" % (c, m): pfx[(c, "rel")] for c in pcl for m in ("dbg", "rel")}, floor_per_group=1)
    rep.note("not decided: exactness of powf/powd (std or bundled libm) used for float powers in compact builds; decided for the bundled libm: its split constants "
             "(ln 2, 2/(3 ln 2), 1/ln 2, log2 1.5 as head + tail) equal their definitions to 14 bits beyond the working precision. On-demand integer powers: every "
             "u64::pow call site reachable from try_fast_path / bigint::pow (thorough: parse_mantissa) in the compact configurations is proven overflow-free (E4)")
    return rep.finish(
        "proof",
        "Exhaustive recomputation: every entry of every stored power table (651 x 128-bit Eisel-Lemire, 28+20 integer, "
        "11+23 float, 5^135 limbs; compact: 10+66 Bellerophon significands, 10 integer powers, the log2 multiplier on every "
        "exponent the tables use) is read from rustc's constant evaluation of the current tree and compared with an independent "
        "big-integer implementation of its definition. Finite set, covered completely, in each analysed configuration. On-demand integer powers "
        "(compact): the argument interval of every u64::pow call site is proven to keep radix^e below 2^64 by abstract interpretation, so the "
        "computed value is the exact power.",
        [A_TOOL, A_TARGET, "POWER_OF_FIVE_128 entries are (high word, low word) as the generator prints them"],
        trusted_base=["rustc const evaluation", "Python int/Fraction arithmetic", "/verif/mlxsa/consts.py definitions"],
        checker_cmd="./check C14 --" + tier,
    )


# ---------------------------------------------------------------------------
def check_C15(tier):
    rep = Report("C15", tier)
    non_alloc = ["default"] if tier == "quick" else F.NON_ALLOC_CONFIGS
    alloc_cfgs = ["compact_alloc"] if tier == "quick" else ["alloc", "compact_alloc", "nostd_alloc", "nostd_compact_alloc"]
    fx = F.build_many([(c, "rel") for c in non_alloc + alloc_cfgs])
    fixture = E.fixture_view(F.build_fixture("rel"))
    roots = ["root_f32", "root_f64"]
    R1 = "R15.1:no instance of crate alloc / allocator entry point is reachable (monomorphic call graph) from parse_float::<f32|f64>"
    R2 = "R15.2:no body, signature or field type of the library mentions an item of crate alloc"
    R3 = "R15.3:no indirect (fn-pointer / dyn) call on the reachable graph, so R15.1 is complete"
    R4 = "R15.4:the crate does not link `alloc` (no `extern crate alloc`)"
    n_inst = 0
    for cfg in non_alloc:
        v = E.lib_view(fx[(cfg, "rel")])
        obs = []
        h, n = E.r_mono_alloc(v, roots); n_inst += n
        obs += E.hits_to_obs("R15.1", R1, h, n)
        rep.floor("%s: instances reachable from parse_float" % cfg, n, 150)
        h, n = E.r_poly_alloc_mention(v)
        obs += E.hits_to_obs("R15.2", R2, h, n)
        rep.floor("%s: type/def mentions scanned" % cfg, n, 400)
        reach = E.mono_reach(v.mono, [v.mono_roots[r] for r in roots])
        h = E.indirect_calls(v.mono, reach)
        obs += E.hits_to_obs("R15.3", R3, h, len(reach))
        h, n = E.r_extern_crate_alloc(v)
        obs += E.hits_to_obs("R15.4", R4, h, n)
        st = {x["path"]: x for x in v.structs}
        rep.note("%s: struct field types: %s" % (cfg, {k: [f["ty"] for f in x["fields"]] for k, x in st.items() if "Vec" in k or "Bigint" in k}))
        rep.add(cfg, obs)
    # the same rules must see heap use where it exists: alloc configurations + fixture
    ctl = []
    for cfg in alloc_cfgs:
        v = E.lib_view(fx[(cfg, "rel")])
        h1, _ = E.r_mono_alloc(v, roots)
        h2, _ = E.r_poly_alloc_mention(v)
        ctl.append(K.Ob("control R15.1 sees Vec in `%s`" % cfg, len(h1) > 0, "%d alloc instances reachable" % len(h1),
                        "CTL:with the alloc feature the reachability rule must report the heap vector"))
        ctl.append(K.Ob("control R15.2 sees Vec in `%s`" % cfg, len(h2) > 0, "%d alloc mentions" % len(h2),
                        "CTL:with the alloc feature the mention rule must report the heap vector"))
    h, _ = E.r_mono_alloc(fixture, ["root_alloc"])
    ctl.append(E.control_obs("R15.1", R1, [E.Hit("root_alloc", x.what) for x in h], "root_alloc"))
    h, _ = E.r_poly_alloc_mention(fixture)
    for fn in ("ctl_alloc_vec", "ctl_alloc_box", "ctl_alloc_format"):
        ctl.append(E.control_obs("R15.2", R2, h, fn))
    reach = E.mono_reach(fixture.mono, [fixture.mono_roots["root_dyn"]])
    ctl.append(E.control_obs("R15.3", R3, E.indirect_calls(fixture.mono, reach), "root_dyn"))
    rep.add("controls", ctl)
    rep.analysed = {"non_alloc_configurations": non_alloc, "alloc_configurations_as_controls": alloc_cfgs,
                    "roots": roots, "mono_instances_reached": n_inst}
    return rep.finish(
        "other",
        "Effect rule over the resolved program: in every configuration without `alloc`, (1) the monomorphic call graph from "
        "parse_float::<f32> and ::<f64> (all callees resolved through rustc's Instance::try_resolve, drop glue and fn items "
        "passed as values included, panic entry points not followed) contains no instance defined in crate `alloc` and no "
        "allocator entry point; (2) no body, signature or field type anywhere in the library mentions a def-id of crate `alloc`, "
        "which covers every iterator type and every rarely taken path at once; (3) no fn-pointer/dyn call exists on that graph; "
        "(4) no `extern crate alloc`. (The field types of the big-integer storage are listed in notes, not asserted: rule 2 already covers them.) Controls: the same rules report "
        "the heap vector in the alloc configurations and Vec/Box/format! in the fixture crate on every run.",
        [A_TOOL, A_TARGET, "panic machinery (core::panicking::*, std::panicking::*) is a leaf: panics do not occur for valid input (C04)",
         "std's precompiled non-generic functions ship no MIR; the only ones reachable are powf (compact) and the panic machinery"],
    )


def check_C16(tier):
    rep = Report("C16", tier)
    cl = ["default"] if tier == "quick" else F.ALL_CONFIGS
    fx = F.build_many([(c, "rel") for c in cl])
    fixture = E.fixture_view(F.build_fixture("rel"))
    rules = [
        ("R16.1", "no static mut, no static with interior mutability, no thread-local, and no body touches one", E.r_mutable_globals, ["ctl_static_mut", "COUNTER", "TL"]),
        ("R16.2", "no body, signature or field type mentions Cell/UnsafeCell/atomics/locks", E.r_interior_mut, ["ctl_cell_local", "ctl_atomic"]),
        ("R16.4", "no pointer<->integer cast, pointer transmute, raw-pointer comparison or address-observing call", E.r_address_dependence, ["ctl_ptr_to_int", "ctl_ptr_cmp", "ctl_ptr_transmute"]),
        ("R16.5", "on a generic iterator only sequence-determined methods are called (no size_hint/len/advance_by, no type-dependent query)", E.r_iterator_discipline, ["ctl_size_hint", "ctl_type_dispatch", "ctl_size_of"]),
        ("R16.7", "no assume_init / mem::uninitialized / mem::zeroed", E.r_uninit_read, ["ctl_assume_init"]),
        ("R16.8", "inline asm only inside module fpu", E.r_asm_confined, ["ctl_asm"]),
    ]
    for cfg in cl:
        f = fx[(cfg, "rel")]
        v = E.lib_view(f)
        obs = []
        for rid, text, fn, _ctl in rules:
            h, n = fn(v)
            obs += E.hits_to_obs(rid, rid + ":" + text, h, n)
        # R16.3 foreign callees
        feats = F.cfg_features(cfg)

        def allow(m, feats=feats):
            if E.nz(m["path"]) in (E.nz("std::f32::<impl f32>::powf"), E.nz("std::f64::<impl f64>::powf")):
                return True
            if "alloc" in feats and (m["krate"] == "alloc" or m["krate"] == "std" and "alloc" in m["name"]):
                return True
            return False
        h, n = E.foreign_instances(v, ["root_f32", "root_f64", "root_chain_f64", "root_filter_f64"], allow)
        obs += E.hits_to_obs("R16.3", "R16.3:every reachable instance is defined in core or the library (allow-list: powf; Vec with alloc); nothing else can carry state", h, n)
        rep.floor("%s: mono instances reached" % cfg, n, 150)
        # R16.9 iterator-shape independence
        base = E.crate_local_shape(v, "root_f64")
        for other in ("root_chain_f64", "root_filter_f64"):
            sh = E.crate_local_shape(v, other)
            diff = []
            for k in sorted(set(base) | set(sh)):
                if base.get(k) != sh.get(k):
                    diff.append("%s: slice=%s other=%s" % (k, sorted(base.get(k, [])), sorted(sh.get(k, []))))
            obs.append(K.Ob("R16.9: %s vs root_f64" % other, not diff, "; ".join(diff)[:600] or "%d crate functions, identical callee sets" % len(base),
                            "R16.9:for Chain/Filter iterators the parser reaches the same library functions with the same library callees and the same Iterator/Clone methods as for slice iterators",
                            "harness/roots: " + other))
        rep.floor("%s: crate functions in shape" % cfg, len(base), 40)
        rep.add(cfg, obs)
    ctl = []
    for rid, text, fn, ctls in rules:
        h, _ = fn(fixture)
        for c in ctls:
            ctl.append(E.control_obs(rid, text, h, c))
    rep.add("controls", ctl)
    rep.note("E4 part (every read through a StackVec pointer is below `length`; shl_limbs/resize initialise what they expose) is reported under C13/C08")
    rep.analysed = {"configurations": cl}
    return rep.finish(
        "other",
        "Effect/ownership rules decided on the type-checked program of each configuration: no mutable or interior-mutable "
        "global state is defined, mentioned or reachable; no operation observes an address; generic iterator values are only "
        "advanced/cloned/counted (never asked for size_hint, length or type identity), and Chain/Filter instantiations reach "
        "exactly the library functions and callees the slice instantiation reaches; no uninitialised-value read API; inline "
        "asm confined to fpu. Together: the result is a function of the yielded byte sequences and the exponent, and calls "
        "share no state (thread safety follows). Each zero-count rule fires on its fixture control on every run.",
        [A_TOOL, A_TARGET, "a `well-behaved` iterator yields the same sequence from a clone and has no side effects in next/clone",
         "reads below StackVec.length only: decided by E4 (C13), not here"],
    )

# ---------------------------------------------------------------------------
# constant-rule parts shared by several properties
# ---------------------------------------------------------------------------
def _k_float(f, fty):
    obs = []
    obs += K.format_rules(f, fty)
    obs += K.fastpath_rules(f, fty)
    obs += K.tie_window_rules(f, fty)
    obs += K.cutoff_rules(f, fty)
    o, _need = K.max_digits_rules(f, fty)
    obs += o
    return obs


def _check_rounding(pid, fty, tier):
    """C01 / C02: constants + (C02) single-rounding structure. E4 parts are appended by absint when available."""
    rep = Report(pid, tier)
    cl = cfgs(tier)
    fx = F.build_many([(c, "rel") for c in cl])
    for cfg in cl:
        f = fx[(cfg, "rel")]
        obs = _k_float(f, fty)
        rep.floor("%s: K-rules for %s" % (cfg, fty), len(obs), 20)
        if fty == "f32":
            v = E.lib_view(f)
            h, n = E.r_single_rounding(v, "root_f32")
            obs += E.hits_to_obs("S", "S:no f64-typed local, no float-to-float cast and no f64-instantiated function is reachable from parse_float::<f32> (the f32 result is rounded once)", h, n)
            rep.floor("%s: instances scanned for S-rule" % cfg, n, 100)
        # tables feed the same result: reuse C14 rules as obligations of this property too
        obs += K.table_rules(f)
        rep.add(cfg, obs)
    if fty == "f32":
        fixture = E.fixture_view(F.build_fixture("rel"))
        h, _ = E.r_poly_double_round(fixture)
        rep.add("controls", [E.control_obs("S", "float-to-float cast", h, "ctl_double_round")])
    rep.analysed = {"configurations": cl, "float": fty}
    # D-rule: the fields handed to extended_to_float pack without corrupting the exponent field -- the moderate stage's exits (protocol
    # post-condition), round's post-condition and the packing helper, for this float type
    scl = ["default", "compact"] if tier == "quick" else E4_CONFIGS
    jobs = _cutoff_jobs(scl) + [{"config": c, "mode": "dbg", "model": "valid", "kind": "fn", "target": "minimal_lexical::rounding::round", "pre": "round", "post": "round"} for c in scl]
    jobs += [{"config": c, "mode": m, "model": "valid", "kind": "fn", "target": "minimal_lexical::number::{impl#0}::try_fast_path", "post": "fastpath"} for c in scl for m in ("dbg", "rel")]
    results = run_jobs(jobs)
    sfx = F.build_many([(c, "rel") for c in scl])
    tag = "<%s>" % fty
    def _grp(j):
        return "%s %s" % (j["config"], {"cutoff": "stage", "round": "round"}.get(j.get("post"), "fast path/" + j["mode"]))
    sides = {"%s %s" % (c, k): sfx[(c, "rel")] for c in scl for k in ("stage", "round", "fast path/dbg", "fast path/rel")}
    _e4_report(rep, "C11", [r for r in results if r["job"].get("post") != "fastpath"], _grp, sides,
               fn_filter=lambda o: o["kind"].startswith("post:") and tag in o["fn"], floor_per_group=1)
    # the fast path must not contain wrapping arithmetic that can wrap (none at all today: expected count zero)
    _e4_report(rep, "C11", [r for r in results if r["job"].get("post") == "fastpath"], _grp, sides,
               fn_filter=lambda o: o["kind"].startswith("wrap-free") and tag in o["fn"], floor_per_group=0)
    rep.note("NOT decided: that the Eisel-Lemire / Bellerophon / big-integer algorithms round correctly. Decided: the per-format constants equal their IEEE-derived definitions (equalities) or lie on the necessary side of their bound (one-sided), every table entry equals its definition" + ("; single-rounding structure" if fty == "f32" else ""))
    return rep.finish(
        "other",
        "Static necessary conditions of correct rounding for %s: (K) every Float associated constant as evaluated by rustc equals its "
        "definition from the compiler's own MANTISSA_DIGITS/MAX_EXP (masks, biases, INFINITE_POWER) or satisfies the one-sided bound whose "
        "violation must change some result (fast-path limits, tie window, decimal cut-offs, MAX_DIGITS >= longest midpoint expansion, computed "
        "exactly); (T) every power-table entry equals its definition%s; (D) every exit of the moderate stage is either declined with a normalised "
        "significand or definite with fields that pack without touching the exponent field, every early zero/infinity is implied by the exponent bound of "
        "its path, and round() re-establishes the packable range (never NaN) -- abstract interpretation of the %s instances. The numerical behaviour "
        "itself (nearest-even for every input) is not decided by this check." % (fty, "; (S) the f32 instantiation contains no f64 value, so the result cannot be an f64 rounded a second time" if fty == "f32" else "", fty),
        A_E4 + [A_TOOL, A_TARGET, "one-sided rules are armed only in the direction that is a necessary condition"],
    )


def check_C01(tier):
    return _check_rounding("C01", "f64", tier)


def check_C02(tier):
    return _check_rounding("C02", "f32", tier)


def check_C17(tier):
    rep = Report("C17", tier)
    cl = ["default"] if tier == "quick" else F.ALL_CONFIGS
    fx = F.build_many([(c, "rel") for c in cl])
    for cfg in cl:
        f = fx[(cfg, "rel")]
        obs = K.format_rules(f, "f32") + K.format_rules(f, "f64")
        rep.floor("%s: format constants" % cfg, len(obs), 22)
        rep.add(cfg, obs)
    rep.analysed = {"configurations": cl}
    # helper bodies: interval analysis per class of bit patterns (a finite partition of all 2^32 / 2^64 patterns)
    bcl = ["default"] if tier == "quick" else F.ALL_CONFIGS
    jobs = [{"config": c, "mode": m, "model": "valid", "kind": "bits", "target": fty}
            for c in bcl for m in (("dbg",) if tier == "quick" else ("dbg", "rel")) for fty in ("f32", "f64")]
    results = run_jobs(jobs)
    bfx = F.build_many([(c, "dbg") for c in bcl])
    _e4_report(rep, "C17", results, lambda j: "%s/%s %s helper bodies" % (j["config"], j["mode"], j["target"]),
               {"%s/%s %s helper bodies" % (j["config"], j["mode"], j["target"]): bfx[(j["config"], "dbg")] for j in jobs}, floor_per_group=190)
    rep.note("helper bodies: is_denormal / exponent / mantissa / slow::b / slow::bh / extended_to_float are analysed by E4 with floats carried as "
             "bit patterns, once per class of a partition of ALL bit patterns into 26 intervals (sign x exponent-field class x fraction class); "
             "on each class the result interval must lie inside what the IEEE-754 decoding (derived from the compiler's parameters) assigns. "
             "Singleton exponent classes {0},{1},{max-1},{max} and fraction end-points are exact; inside the wide middle class the check is an interval inclusion.")
    return rep.finish(
        "other",
        "All mask/bias/size constants of both Float impls, as evaluated by rustc, equal the IEEE-754 definitions derived from the compiler's "
        "own MANTISSA_DIGITS and MAX_EXP (11 equalities per format), in every configuration. Helper bodies: for every class of a finite interval "
        "partition of all bit patterns, abstract execution of the monomorphic MIR of each helper yields a result inside the interval required by the "
        "IEEE-754 decoding of that class (is_denormal exact; exponent, mantissa, b, bh, extended_to_float by inclusion).",
        [A_TOOL, A_TARGET],
    )


def check_C06(tier):
    rep = Report("C06", tier)
    cl = ["default"] if tier == "quick" else F.ALL_CONFIGS
    fx = F.build_many([(c, "rel") for c in cl])
    need = {}
    for cfg in cl:
        f = fx[(cfg, "rel")]
        obs = []
        for fty in ("f32", "f64"):
            o, n = K.max_digits_rules(f, fty)
            need[fty] = n
            obs += o
        obs += K.capacity_rules(f)
        rep.add(cfg, obs)
    tcl = ["default"] if tier == "quick" else E4_CONFIGS
    jobs = [{"config": c, "mode": "dbg", "model": "valid", "kind": "fn", "target": d, "post": "truncation"}
            for c in tcl for d in ("minimal_lexical::parse::parse_number", "minimal_lexical::parse::parse_number_fast", "minimal_lexical::slow::parse_mantissa")]
    fcl = ["default", "compact"] if tier == "quick" else E4_CONFIGS
    fjobs = [{"config": c, "mode": m, "model": "valid", "kind": "truncflag", "target": fty} for c in fcl for m in ("dbg", "rel") for fty in ("f32", "f64")]
    fres = run_jobs(fjobs)
    ffx = F.build_many([(c, "dbg") for c in fcl])
    _e4_report(rep, "C06", fres, lambda j: "%s flag honoured" % j["config"], {"%s flag honoured" % c: ffx[(c, "dbg")] for c in fcl},
               fn_filter=lambda o: o["kind"].startswith("post:trunc"), floor_per_group=2)
    results = run_jobs(jobs)
    tfx = F.build_many([(c, "dbg") for c in tcl])
    _e4_report(rep, "C06", results, lambda j: "%s typestate" % j["config"], {"%s typestate" % c: tfx[(c, "dbg")] for c in tcl}, floor_per_group=3)
    rep.analysed = {"configurations": cl, "longest_midpoint_digits": need, "typestate_entry_points": sorted(set(j["target"] for j in jobs))}
    rep.note("NOT decided: rounding of the truncated value. Decided: MAX_DIGITS is at least the longest exact decimal expansion of any midpoint between adjacent floats (computed by big-integer enumeration over all binades), and retaining that many digits fits the big-integer capacity")
    return rep.finish(
        "other",
        "(Typestate, E4) at every exit of parse_number either many_digits is set or both input iterators are exhausted; parse_number_fast returns "
        "Some only with both exhausted: a digit can be left unread by the 19-digit stage only if the result says so; at every exit of "
        "slow::parse_mantissa either both iterators are exhausted or the returned digit count has reached max_digits; an exit whose count exceeds "
        "max_digits (the sticky digit was appended) has read a provably non-zero input byte last (trailing zeros never break a tie). "
        "The flag is honoured by the middle stage (E4, both formats, dbg and rel): entered with many_digits set, lemire::<F> reaches a return only declined, "
        "or after evaluating compute_float on w and on w+1 (argument interval shifted by exactly one) and comparing the two results; bellerophon::<F> "
        "calls error_is_accurate only with an estimate of at least error_scale() (one unit of the significand in the estimate's own unit, read from the code). "
        "Necessary condition of long-input rounding: MAX_DIGITS >= D_mid(F), where D_mid is computed exactly (768 for f64, 113 for f32 on IEEE parameters "
        "taken from the compiler); with fewer retained digits an exact tie is replaced by prefix||1 < tie and rounds the wrong way. Plus the capacity "
        "formula of DESIGN appendix B evaluated on the extracted constants.",
        [A_TOOL, A_TARGET],
    )


def check_C07_consts_only(tier):
    rep = Report("C07", tier)
    cl = cfgs(tier)
    fx = F.build_many([(c, "rel") for c in cl])
    for cfg in cl:
        f = fx[(cfg, "rel")]
        obs = []
        for fty in ("f32", "f64"):
            obs += K.cutoff_rules(f, fty)
        rep.floor("%s: cut-off rules" % cfg, len(obs), 8)
        rep.add(cfg, obs)
    rep.analysed = {"configurations": cl}
    return rep.finish(
        "other",
        "Cut-off rules: the decimal-exponent early-outs of both moderate stages imply the value they return (2^64 * 10^(S-1) is at most half the "
        "smallest subnormal; 10^(L+1) is at least 2^(bias+1); same for the Bellerophon table range), and lie inside the power tables.",
        [A_TOOL, A_TARGET],
    )


def check_C11(tier):
    rep = Report("C11", tier)
    cl = cfgs(tier)
    fx = F.build_many([(c, "rel") for c in cl])
    for cfg in cl:
        f = fx[(cfg, "rel")]
        obs = []
        for fty in ("f32", "f64"):
            obs += K.tie_window_rules(f, fty)
            obs += K.cutoff_rules(f, fty)
        obs += K.table_rules(f)
        rep.add(cfg, obs)
    rep.analysed = {"configurations": cl}
    ccl = ["default", "compact"] if tier == "quick" else E4_CONFIGS
    wjobs = [{"config": c, "mode": m, "model": "valid", "kind": "window", "target": fty} for c in ccl if "compact" in c for m in ("dbg", "rel") for fty in ("f32", "f64")]
    wjobs += [{"config": c, "mode": m, "model": "valid", "kind": "truncflag", "target": fty} for c in ccl for m in ("dbg", "rel") for fty in ("f32", "f64")]
    results = run_jobs(_cutoff_jobs(ccl) + wjobs)
    cfx = F.build_many([(c, "rel") for c in ccl])
    stage = ("minimal_lexical::lemire::", "minimal_lexical::bellerophon::", "minimal_lexical::extended_float::")
    _e4_report(rep, "C11", results, lambda j: "%s stage" % j["config"], {"%s stage" % c: cfx[(c, "rel")] for c in ccl},
               fn_filter=lambda o: o["kind"].startswith(("post:", "carry-test", "scale-consumed", "wrap-free")) and (o["kind"].startswith("post:") or o["fn"].startswith(stage)),
               floor_per_group=3)
    n_carry = sum(1 for r in results for res in r.get("results", []) for o in res["obs"] if o["kind"].startswith("carry-test"))
    rep.floor("carry tests on wrapping sums in the Eisel-Lemire product", n_carry, 1)
    n_win = sum(1 for r in results for res in r.get("results", []) for o in res["obs"] if o["kind"].startswith("post:window width agrees"))
    rep.floor("exponent classes on which error_is_accurate and round must use the same width (whole subnormal range + neighbours, f32 and f64, per mode)",
              n_win, (28 + 57) * 2 * len([c for c in ccl if "compact" in c]))
    n_scale = sum(1 for r in results for res in r.get("results", []) for o in res["obs"] if o["kind"].startswith("scale-consumed"))
    rep.floor("call sites of normalize in the Bellerophon stage (scale-consumed rule)", n_scale, 1 * len([c for c in ccl if "compact" in c]))
    return rep.finish(
        "other",
        "Constant part of the middle stage: tie-window bounds (one-sided), table coverage of [SMALLEST,LARGEST]_POWER_OF_TEN, every table significand "
        "equals its definition and has its top bit set. Structural part (E4 over the monomorphic MIR of compute_float / bellerophon): every ordering "
        "test between a wrapping unsigned sum and one of its own addends is one of the four forms equivalent to the carry (r < x, x > r, r >= x, x <= r) "
        "unless the other addend is provably non-zero -- the 128-bit product's high word is exact only if the carry is; the shift returned by "
        "bellerophon::normalize is consumed at every call site, or every value flowing into error_is_accurate's error argument is provably zero there (a dropped "
        "shift leaves the pending error in the unit of the un-normalised significand); sibling agreement: for every biased exponent of the subnormal range "
        "(singleton classes -64 .. -(63-MANTISSA_SIZE)+2) and for all larger exponents as one class, with significand and error estimate abstract, the width "
        "error_is_accurate::<F> passes to lower_n_halfway/lower_n_mask is a single value and equals the width at which every nearest-even instance of "
        "round::<F, _> rounds an extended float with that exponent (exponent -64: no width in the estimate, clamp to 64 in round); the dropped-digits flag is honoured "
        "(entered with many_digits set, lemire::<F> returns only declined or after evaluating and comparing w and w+1; bellerophon::<F> reaches error_is_accurate only "
        "with an estimate of at least error_scale()); and every call-free exit that "
        "returns a literal zero/infinity is implied by the exponent bound of its own path. Whether a definite answer is the correctly rounded one is NOT decided.",
        A_E4 + [A_TOOL, A_TARGET],
    )


ROUND_FNS = ("minimal_lexical::rounding::round", "minimal_lexical::rounding::round_nearest_tie_even")
R181 = ("R18.1:in every instance of round / round_nearest_tie_even each path from entry to return passes through a call of the rounding callback "
        "(the direction of rounding is never decided without it)")


def check_C18(tier):
    rep = Report("C18", tier)
    cl = ["default"] if tier == "quick" else F.ALL_CONFIGS
    fx = F.build_many([(c, "rel") for c in cl])
    for cfg in cl:
        f = fx[(cfg, "rel")]
        obs = []
        for fty in ("f32", "f64"):
            keep = ("CARRY_MASK", "HIDDEN_BIT_MASK", "MANTISSA_MASK", "INFINITE_POWER", "MANTISSA_SIZE")
            obs += [o for o in K.format_rules(f, fty) if o.key.split("::")[1] in keep]
        rep.floor("%s: rounding constants" % cfg, len(obs), 10)
        v = E.lib_view(f)
        h, n = E.r_must_consult_callback(v, ROUND_FNS)
        obs += E.hits_to_obs("R18.1", R181, h, n)
        rep.floor("%s: instances of round / round_nearest_tie_even" % cfg, n, 4)
        rep.add(cfg, obs)
    rcl = ["default", "compact"] if tier == "quick" else list(F.ALL_CONFIGS)
    jobs = [{"config": c, "mode": "dbg", "model": "valid", "kind": "fn", "target": "minimal_lexical::rounding::round", "pre": "round", "post": "round"} for c in rcl]
    jobs += [{"config": c, "mode": m, "model": "valid", "kind": "masks", "target": "masks"} for c in rcl for m in ("dbg", "rel")]
    jobs += [{"config": c, "mode": m, "model": "valid", "kind": "roundcls", "target": fty} for c in rcl for m in ("dbg", "rel") for fty in ("f32", "f64")]
    results = run_jobs(jobs)
    rfx = F.build_many([(c, "dbg") for c in rcl])
    n_mask = sum(1 for r in results for res in r.get("results", []) for o in res["obs"] if o["kind"].startswith("post:mask"))
    rep.floor("bit-mask helper obligations (3 helpers x 5 width classes + coverage, per configuration and mode)", n_mask, 18 * 2 * len(rcl))
    _e4_report(rep, "C18", results, lambda j: "%s round" % j["config"], {"%s round" % c: rfx[(c, "dbg")] for c in rcl},
               fn_filter=lambda o: o["kind"].startswith("post:") or o["fn"].startswith(("minimal_lexical::rounding::", "minimal_lexical::mask::")), floor_per_group=5)
    fixture = E.fixture_view(F.build_fixture("rel"))
    h, _ = E.r_must_consult_callback(fixture, ("bad::ctl_skip_callback", "bad::ok_always_callback"))
    rep.add("controls", [E.control_obs("R18.1", R181, [E.Hit(x.fn.replace("bad::", ""), x.what) for x in h], "ctl_skip_callback"),
                         K.Ob("control R18.1 silent on fixtures/bad::ok_always_callback", not [x for x in h if "ok_always" in x.fn], "", "CTL:a function whose every path consults the callback is not reported")])
    rep.analysed = {"configurations": cl}
    return rep.finish(
        "other",
        "(R18.1) every path through rounding::round and round_nearest_tie_even consults the rounding callback before returning (must-pass-through on the "
        "monomorphic CFG: a path that returns without it would decide the discarded bits alone). Constants the rounding primitive consumes (CARRY_MASK, HIDDEN_BIT_MASK, MANTISSA_MASK, INFINITE_POWER, MANTISSA_SIZE) equal their definitions for both formats. "
        "(E4) round::<F,_> from every significand with its top bit set and every exponent whose subnormal shift is at most 64: all shifts / mask widths in range and the "
        "post-condition 0 <= exp <= INFINITE_POWER, mant <= HIDDEN_BIT_MASK, exp = INFINITE_POWER => mant = 0. Bit-mask helpers (lower_n_mask, lower_n_halfway, nth_bit) "
        "for all widths 0..=64: on each class of the partition {0},{1},[2,62],{63},{64} the abstract result lies inside the hull of the definition over that class "
        "(exact on the boundary widths). Boundary classes of round::<F,_> on which interval arithmetic is exact (shift-64 subnormals: tie -> 0, above -> smallest "
        "subnormal; largest subnormal -> smallest normal; all-ones significand: carry into the next binade; carry out of the largest binade -> infinity; exponent "
        "already infinite): the result fields EQUAL the IEEE result for every instance whose rounding callback is the generic nearest-even one (no captured "
        "state) or round_down. The nearest-even decision on the remaining inputs is NOT decided.",
        A_E4 + [A_TOOL, A_TARGET],
    )


R2C = ("R12.2:at every call in bigint.rs to an integer overflowing_* method or to a (value, carry) helper of the module, both components of the returned "
       "pair are read (or the pair is passed on whole): a carry is never dropped unread")
WRAP_OK = set()
R4 = ("R12.4:limb arithmetic in bigint.rs never uses wrapping_* on a limb type (which would silently drop a carry); wrapping on `usize` is index "
      "arithmetic (today: `len.wrapping_sub(1)` consumed by a bounds-checked `get`) and is not limb arithmetic")


def check_C12(tier):
    rep = Report("C12", tier)
    cl = cfgs(tier)
    fx = F.build_many([(c, "rel") for c in cl])
    fixture = E.fixture_view(F.build_fixture("rel"))
    R = "R12.1:the Option/Result returned by a library function is never dropped unread (consumed by ?, unwrap, a match, or returned)"
    for cfg in cl:
        f = fx[(cfg, "rel")]
        v = E.lib_view(f)
        h, n = E.r_dropped_failure(v)
        obs = E.hits_to_obs("R12.1", R, h, n)
        rep.floor("%s: fallible call sites" % cfg, n, 20)
        obs += [o for o in K.table_rules(f) if o.key.startswith(("LARGE_POW5", "SMALL_INT_POW5"))]
        h, n = E.r_wrapping_arith(v, "minimal_lexical::bigint::", WRAP_OK)
        obs += E.hits_to_obs("R12.4", R4, h, n)
        rep.floor("%s: call sites scanned in bigint.rs for wrapping_* limb arithmetic" % cfg, n, 60)
        h, n = E.r_carry_components_used(f)
        obs += E.hits_to_obs("R12.2", R2C, h, n)
        rep.floor("%s: carry-returning call sites in bigint" % cfg, n, 10)
        rep.add(cfg, obs)
    ecl = ["default", "compact", "alloc"] if tier == "quick" else F.ALL_CONFIGS
    if os.environ.get("MLX_ONLY_CONFIG"):
        ecl = os.environ["MLX_ONLY_CONFIG"].split(",")
    jobs = []
    for c in ecl:
        f0 = fx.get((c, "rel")) or F.build(c, "rel")
        for d in _stackvec_entries(f0):
            for m in ("dbg", "rel"):
                jobs.append({"config": c, "mode": m, "model": "arbitrary", "kind": "fn", "target": d})
    jobs += [{"config": c, "mode": m, "model": "valid", "kind": "hi64", "target": "hi64"} for c in ecl for m in ("dbg", "rel")]
    results = [r for r in run_jobs(jobs) if not ("error" in r and "no instance" in r["error"])]
    n_hi = sum(1 for r in results for res in r.get("results", []) for o in res["obs"] if o["kind"].startswith("post:hi64"))
    rep.floor("hi64 class obligations (one per configuration and mode)", n_hi, 2 * len(ecl))
    efx = F.build_many([(c, "rel") for c in ecl])
    _e4_report(rep, "C12", results, lambda j: "%s/%s big-integer layer" % (j["config"], j["mode"]),
               {"%s/%s big-integer layer" % (c, m): efx[(c, "rel")] for c in ecl for m in ("dbg", "rel")},
               fn_filter=lambda o: o["fn"].startswith(("minimal_lexical::bigint::", "minimal_lexical::stackvec::", "minimal_lexical::heapvec::")), floor_per_group=30)
    rep.note("hi64 of one and two limbs: r0 partitioned by its leading-zero count (64 classes covering every non-zero limb), r1 into {0}, the values whose "
             "dropped bits are non-zero, and the rest; value normalised (exact when r1 contributes nothing), sticky flag false for r1 = 0 and true when dropped bits "
             "are non-zero. The scan of the lower limbs (`nonzero`) and hi64 for three or more limbs are NOT decided.")
    hw, _ = E.r_wrapping_arith(fixture, "bad::", set())
    h, _ = E.r_dropped_failure(fixture)
    ctl = [E.control_obs("R12.1", R, h, "ctl_dropped_failure"), E.control_obs("R12.4", R4, [E.Hit(x.fn.replace("bad::", ""), x.what) for x in hw], "ctl_wrapping_limb")]
    class _FX:
        pass
    fxm = _FX()
    fxm.mono = {m["id"]: m for m in F.build_fixture("rel")["mono"]}
    hc, _ = E.r_carry_components_used(fxm, krate="bad", fn_prefix="bad::")
    ctl.append(E.control_obs("R12.2", R2C, hc, "ctl_dropped_carry"))
    hokc = [x for x in hc if x.fn != "ctl_dropped_carry"]
    ctl.append(K.Ob("control R12.2 silent on fixtures/bad::ok_used_carry / root_carry", not hokc, "%d hits" % len(hokc), "CTL:a pair whose components are both read is not reported"))
    hok = [x for x in h if x.fn == "ok_used_failure"]
    ctl.append(K.Ob("control R12.1 silent on fixtures/bad::ok_used_failure", not hok, "%d hits" % len(hok), "CTL:the accepted idioms (?, unwrap, is_none) are not reported"))
    rep.add("controls", ctl)
    rep.analysed = {"configurations": cl}
    return rep.finish(
        "other",
        "(E4, modular under the vector invariant) in bigint.rs / stackvec.rs every non-wrapping `+ - *` cannot overflow, every narrowing cast is "
        "value-preserving except the audited halves of the widening idiom, raw accesses stay in capacity. "
        "Failure discipline: every call to a library function returning Option/Result has its result read (MIR def-use), so a capacity failure "
        "cannot be silently ignored; carry discipline: both components of every (value, carry) pair are read; top-64-bit extraction from one and two limbs is "
        "exact on the leading-zero classes (value and sticky flag); LARGE_POW5 = 5^LARGE_POW5_STEP and SMALL_INT_POW5 exact. Exactness of the carry chains is NOT decided here.",
        [A_TOOL, A_TARGET],
    )


def check_C05(tier):
    rep = Report("C05", tier)
    cl = cfgs(tier)
    fx = F.build_many([(c, "rel") for c in cl])
    rep.add("cross-configuration", K.cross_config_rules({c: fx[(c, "rel")] for c in cl}))
    for cfg in cl:
        f = fx[(cfg, "rel")]
        obs = K.table_rules(f)
        for fty in ("f32", "f64"):
            obs += K.cutoff_rules(f, fty)
        if "compact" in cfg:
            bp = f.consts["table_bellerophon::BASE10_POWERS"]
            sint = [int(x) for x in bp["small_int"]["slice"]]
            obs.append(K.Ob("BASE10_SMALL_INT_POWERS = 10^i", all(v == 10 ** i for i, v in enumerate(sint)), "%d entries" % len(sint),
                            "X:compact integer powers equal the default configuration's SMALL_INT_POW10 definition (10^i)"))
        rep.add(cfg, obs)
    # the two implementations of the middle stage must honour the same contract towards their callers: dropped digits are accounted for
    # (both), and the compact-only error window sits at the bit round() rounds at
    sjobs = [{"config": c, "mode": "dbg", "model": "valid", "kind": "truncflag", "target": fty} for c in cl for fty in ("f32", "f64")]
    sjobs += [{"config": c, "mode": "dbg", "model": "valid", "kind": "window", "target": fty} for c in cl if "compact" in c for fty in ("f32", "f64")]
    results = run_jobs(_cutoff_jobs(cl) + sjobs)
    _e4_report(rep, "C11", results, lambda j: "%s early-outs" % j["config"], {"%s early-outs" % c: fx[(c, "rel")] for c in cl},
               fn_filter=lambda o: o["kind"].startswith("post:"), floor_per_group=3)
    rep.analysed = {"configurations": cl}
    rep.note("NOT decided: bit-equality of Eisel-Lemire vs Bellerophon, or of table look-ups vs powf. Decided: constants shared by name agree in all analysed configurations; each configuration-specific table meets the same definition-level contract")
    return rep.finish(
        "other",
        "Sibling contracts across feature configurations: every constant with the same name evaluates to the same value in all analysed "
        "configurations; the configuration-specific tables (Eisel-Lemire / small tables vs Bellerophon) each equal their definitions and their cut-offs "
        "imply the same zero/infinity decisions; both implementations of the middle stage account for dropped digits (lemire: w and w+1 evaluated and "
        "compared; bellerophon: estimate of at least one significand unit), and the compact-only error window sits at the width round() shifts by, "
        "on every exponent class.",
        [A_TOOL, A_TARGET],
    )

# ---------------------------------------------------------------------------
# E4-based checks
# ---------------------------------------------------------------------------
from . import e4props as E4  # noqa: E402

E4_CONFIGS = list(F.ALL_CONFIGS)     # all eight: the heap back-end is analysed through the Vec summary
A_E4 = [
    "A1: every loop runs, and every iterator yields, fewer than 2^62 times (replaces `no usize counter overflow`)",
    "A3: the summaries of core/std leaves in mlxsa/absint/summaries.py are faithful",
    "A5: rustc MIR at -Zmir-opt-level=0 with the stated -C debug-assertions / -C overflow-checks represents the source",
    "modular layer: functions listed in audit/contracts.py are analysed once for every input satisfying the vector invariant and the listed "
    "argument preconditions; call sites check both",
    "AUDITED obligations (audit/sites.py) are accepted on the written reason and their machine-checked side condition only",
]


def _rule_of(kind):
    return "E4:%s must hold on every abstract path (PROVEN by the interval/difference-bound interpreter, or AUDITED with reason)" % kind.split(" ")[0]


def _e4_report(rep, pid, results, group_of, fx_for_side, fn_filter=None, floor_per_group=None):
    grouped, errors = E4.collect(pid, results, group_of, fn_filter)
    audit = E4.load_audit()
    side_envs = {g: E4.side_env(fx_for_side[g]) for g in grouped if g in fx_for_side}
    for g in grouped:
        if g not in side_envs:
            side_envs[g] = E4.side_env(next(iter(fx_for_side.values())))
    per_group, stats, used = E4.to_obs(pid, grouped, audit, side_envs, _rule_of)
    for g, obs in sorted(per_group.items()):
        rep.add(g, obs)
        if floor_per_group:
            rep.floor("%s: %s obligations" % (g, pid), len(obs), floor_per_group)
    for job, err in errors:
        rep.add("errors", [K.Ob("analysis job %s" % (job,), False, err[-800:], "E4:every analysis job must complete")])
    walls = [r.get("wall", 0) for r in results]
    notes = {}
    unmod = {}
    for r in results:
        for res in r.get("results", []):
            for k, v in res["notes"].items():
                notes[k] = notes.get(k, 0) + v
            for k, v in res["unmodelled"].items():
                unmod[k] = unmod.get(k, 0) + v
    rep.analysed.update({"e4_jobs": [r["job"] for r in results], "e4_job_wall_s": [round(w, 1) for w in walls],
                         "e4_outcomes": stats, "e4_notes": notes, "e4_unmodelled": unmod,
                         "audited_sites_used": used})
    if os.environ.get("MLX_RESIDUAL"):
        for g, obs in sorted(per_group.items()):
            for o in obs:
                if not o.ok:
                    print("RESIDUAL %s | %s\n      %s" % (g, o.key, o.detail[:300]))
    return stats


def _root_jobs(cfgl, modes_models, roots=("root_f64", "root_f32")):
    return [{"config": c, "mode": m, "model": mod, "kind": "root", "target": r} for c in cfgl for (m, mod) in modes_models for r in roots]


def _e4cl(tier, quick=("default", "compact", "alloc")):
    """configurations for the whole-program E4 runs; MLX_ONLY_CONFIG=<cfg>[,<cfg>] overrides (triage aid, never used by registered commands)"""
    if os.environ.get("MLX_ONLY_CONFIG"):
        return os.environ["MLX_ONLY_CONFIG"].split(",")
    return list(quick) if tier == "quick" else F.ALL_CONFIGS


def check_C04(tier):
    rep = Report("C04", tier)
    cl = _e4cl(tier)
    fx = F.build_many([(c, "dbg") for c in cl])
    results = run_jobs(_root_jobs(cl, [("dbg", "valid")]))
    fxs = {c: fx[(c, "dbg")] for c in cl}
    _e4_report(rep, "C04", results, lambda j: j["config"], fxs, floor_per_group=150)
    for c in cl:
        rep.add(c + " capacity", K.capacity_rules(fxs[c]))
    # heap back-end: not analysed by E4, but its capacity discipline is a structural necessary condition
    acl = ["alloc"] if tier == "quick" else ["alloc", "compact_alloc", "nostd_alloc", "nostd_compact_alloc"]
    afx = F.build_many([(c, "rel") for c in acl])
    RH = ("R04.h:every function reachable from parse_float that constructs a HeapVec reserves at least BIGINT_LIMBS limbs (shl_limbs reports failure "
          "beyond capacity(), and its callers unwrap)")
    for c in acl:
        f = afx[(c, "rel")]
        h, n = E.r_heapvec_capacity(E.lib_view(f), ["root_f32", "root_f64"], f.const_int("bigint::BIGINT_LIMBS"))
        rep.add(c + " heap capacity", E.hits_to_obs("R04.h", RH, h, n))
        rep.floor("%s: HeapVec constructors reachable" % c, n, 1)
    rep.analysed["configurations"] = cl
    rep.analysed["alloc_configurations_with_heap_capacity_rule"] = acl
    rep.note("release builds: every `+ - * <<` that carries an Assert(Overflow) in the debug MIR is the same operator in release; "
             "a proven Assert is also the proof that it cannot wrap. In the alloc configurations alloc::vec::Vec is summarised (mlxsa/absint/summaries.py: "
             "length / capacity / initialised-prefix cells, reallocation gives a fresh capacity); the heap vector has no hard length bound, so the sites "
             "that need len <= BIGINT_LIMBS are audited there (audit entries with only=alloc).")
    return rep.finish(
        "other",
        "No panic-capable terminator is reachable from parse_float::<f32|f64> for valid input: the whole monomorphic program (debug-assertions + "
        "overflow-checks MIR, so every arithmetic operator, index, unwrap and debug_assert! is an explicit obligation) is executed abstractly from "
        "root_f32/root_f64 with digit bytes in [0x30,0x39], first integer byte in [0x31,0x39], exponent = any i32, lengths below 2^62 (A1). "
        "Intervals + difference bounds, path-sensitive, loops by widening with equality-constant thresholds and narrowing; the big-integer layer "
        "is analysed modularly under the vector invariant. Each obligation is PROVEN, or AUDITED (listed with reason and machine-checked side "
        "condition in audit/sites.py), else the check fails.",
        A_E4 + [A_TOOL, A_TARGET, "A2: the documented preconditions of parse_float (valid digits, no leading zero in the integer part)"],
    )


def check_C08(tier):
    rep = Report("C08", tier)
    cl = _e4cl(tier)
    mm = [("rel", "arbitrary"), ("dbg", "arbitrary")] if tier == "quick" else [("rel", "arbitrary"), ("dbg", "arbitrary")]
    fx = F.build_many([(c, "rel") for c in cl])
    results = run_jobs(_root_jobs(cl, mm))
    fxs = {"%s/%s" % (c, m): fx[(c, "rel")] for c in cl for m, _ in mm}
    _e4_report(rep, "C08", results, lambda j: "%s/%s" % (j["config"], j["mode"]), fxs, floor_per_group=20)
    # inventory of unsafe operations (E3): evidence + floor
    for c in cl:
        v = E.lib_view(fx[(c, "rel")])
        inv = E.unsafe_inventory(v)
        names = sorted(set(E.nz(x[2]) for x in inv if x[0] == "call"))
        rep.analysed.setdefault("unsafe_inventory", {})[c] = {"sites": len(inv), "unsafe_callees": names}
        # floors = the numbers counted on the pinned tree, minus a margin of 4 for benign refactors (a vanished inventory fails closed)
        UNSAFE_FLOOR = {"default": 29, "compact": 25, "alloc": 14, "compact_alloc": 10, "nostd": 29, "nostd_compact": 43, "nostd_alloc": 14, "nostd_compact_alloc": 28}
        rep.floor("%s: unsafe operation sites in the library" % c, len(inv), UNSAFE_FLOOR.get(c, 10))
        hd = [s for s in v.structs if s["has_drop"]]
        rep.add(c + " drop", [K.Ob("no user Drop impl touches raw memory", not hd, "types with Drop: %s" % [s["path"] for s in hd],
                                   "R08.3:panics unwind through no user Drop (StackVec has none)")])
    rep.analysed["configurations"] = cl
    rep.note("Stacked-Borrows observation (writes through as_mut_ptr() beyond the reborrowed length) is documented in DESIGN 5.8, not alarmed")
    return rep.finish(
        "other",
        "Every unsafe operation reachable from parse_float::<f32|f64> is within bounds for arbitrary bytes: abstract execution of the whole "
        "monomorphic program with bytes in [0,255], any i32 exponent, lengths below 2^62, in release MIR (wrapping arithmetic, no debug asserts) and "
        "in debug MIR: get_unchecked index < table length at every call site, raw writes/copies inside [0, capacity), raw reads and "
        "from_raw_parts inside the initialised prefix, pointer offsets in bounds; the vector invariant is inductive over the modularly analysed "
        "big-integer layer. Panics are allowed exits in this model.",
        A_E4 + [A_TOOL, A_TARGET],
    )


def _stackvec_entries(f):
    out = []
    for b in f.lib["bodies"]:
        d = b.get("dpath", "")
        if b["kind"] == "Closure" or b["unsafe"]:
            continue
        if d.startswith(("minimal_lexical::stackvec::", "minimal_lexical::heapvec::")) or d in ("minimal_lexical::bigint::normalize", "minimal_lexical::bigint::shl_limbs",
                                                                 "minimal_lexical::bigint::shl_bits", "minimal_lexical::bigint::shl",
                                                                 "minimal_lexical::bigint::small_add_from", "minimal_lexical::bigint::small_mul",
                                                                 "minimal_lexical::bigint::large_add_from", "minimal_lexical::bigint::long_mul",
                                                                 "minimal_lexical::bigint::large_mul", "minimal_lexical::bigint::pow",
                                                                 "minimal_lexical::bigint::from_u64"):
            out.append(d)
    return sorted(set(out))


FALLIBLE_VEC_OPS = ("try_push", "try_extend", "try_resize")


def check_C13(tier):
    rep = Report("C13", tier)
    cl = ["default", "compact", "alloc"] if tier == "quick" else F.ALL_CONFIGS
    if os.environ.get("MLX_ONLY_CONFIG"):
        cl = os.environ["MLX_ONLY_CONFIG"].split(",")
    modes = [("dbg", "arbitrary"), ("rel", "arbitrary")]
    fx = F.build_many([(c, "rel") for c in cl])
    jobs = []
    for c in cl:
        for d in _stackvec_entries(fx[(c, "rel")]):
            for m, mod in modes:
                jobs.append({"config": c, "mode": m, "model": mod, "kind": "fn", "target": d})
        # a failed push / extend / resize leaves the vector unchanged (post-condition on the exits returning None)
        # (the heap vector's push / extend / resize cannot fail)
        for meth in FALLIBLE_VEC_OPS if "alloc" not in c else ():
            for m, mod in modes:
                jobs.append({"config": c, "mode": m, "model": mod, "kind": "fn", "target": "minimal_lexical::stackvec::{impl#0}::" + meth,
                             "pre": "pristine", "post": "failure-unchanged"})
    results = run_jobs(jobs)
    n_fu = sum(1 for r in results for res in r.get("results", []) for o in res["obs"] if o["kind"] == "post:a failed operation leaves the vector unchanged")
    rep.floor("failure-leaves-vector-unchanged post-conditions", n_fu, len(FALLIBLE_VEC_OPS) * len(modes) * len([c for c in cl if "alloc" not in c]))
    # entries without a monomorphic instance are reported, not failed: nothing in the build can call them
    missing = sorted(set(r["job"]["target"] for r in results if "error" in r and "no instance" in r["error"]))
    results2 = [r for r in results if not ("error" in r and "no instance" in r["error"])]
    fxs = {"%s/%s" % (c, m): fx[(c, "rel")] for c in cl for m, _ in modes}
    _e4_report(rep, "C13", results2, lambda j: "%s/%s" % (j["config"], j["mode"]), fxs, floor_per_group=30)
    rep.analysed["entries_without_instance"] = missing
    # encapsulation (E1/E3)
    for c in cl:
        v = E.lib_view(fx[(c, "rel")])
        st = {x["path"]: x for x in v.structs}
        sname, mod_ = ("heapvec::HeapVec", "heapvec::") if "alloc" in c else ("stackvec::StackVec", "stackvec::")
        sv = st.get(sname)
        obs = []
        if sv is None:
            obs.append(K.Ob("%s struct present" % sname, False, "no struct %s" % sname, "R13.1"))
        else:
            for fld in sv["fields"]:
                obs.append(K.Ob("field %s.%s is private to its module" % (sname.split("::")[1], fld["name"]), fld["vis"].startswith("Restricted"), fld["vis"],
                                "R13.1:the representation (data, length) is not visible outside its module, so only the analysed writers can break the invariant"))
            wr = E.field_writers(v, sname)
            outside = sorted(k for k in wr if not k.startswith(mod_))
            obs.append(K.Ob("direct writers of %s fields live in module %s" % (sname.split("::")[1], mod_[:-2]), not outside, "writers: %s" % sorted(wr),
                            "R13.1:every function assigning the representation fields directly is a method of the vector type"))
        rep.add(c + " encapsulation", obs)
    rep.analysed["configurations"] = cl
    rep.analysed["entry_points"] = sorted(set(j["target"] for j in jobs))
    rep.note("NOT decided: element-wise equality with a reference sequence (e.g. that resize fills with the given value), and that compare/eq "
             "order like the stored integers. Heap back-end: alloc::vec::Vec is summarised (length, capacity and initialised-prefix cells; a growth "
             "that may reallocate gets a fresh capacity and forgets initialisation beyond the new length); INV there is length <= initialised prefix <= capacity")
    return rep.finish(
        "other",
        "Representation invariant INV(v) = (length <= capacity and slots [0, length) initialised) is inductive over the whole safe API: every "
        "non-unsafe function of module stackvec (heapvec in the alloc configurations) and every friend that writes through vector pointers (bigint::normalize/shl_bits/shl_limbs/shl/"
        "small_mul/small_add_from/large_add_from/long_mul/large_mul/pow/from_u64) is analysed standalone from EVERY state satisfying INV with all other "
        "arguments unconstrained (preconditions of audit/contracts.py only), in debug and release MIR: all raw accesses in bounds, all raw reads "
        "below the initialised prefix, slices expose exactly [0, length), INV holds at every exit. Field privacy (from tcx.visibility) closes the "
        "induction over histories. Failure atomicity: on every exit of try_push / try_extend / try_resize that returns None, every tracked cell of "
        "*self holds the atom it held on entry and no raw or untracked memory write happened on the path.",
        A_E4 + [A_TOOL, A_TARGET],
    )



def check_C19(tier):
    rep = Report("C19", tier)
    cl = ["default"] if tier == "quick" else ["default", "compact"]
    copies = [c for c, _ in F.FRONTEND_COPIES]
    ftys = ["f64"] if tier == "quick" else ["f64", "f32"]
    jobs = [{"config": c, "mode": "dbg", "model": "arbitrary", "kind": "frontend", "target": "root_fe_%s_%s" % (k, t), "frontends": True}
            for c in cl for k in copies for t in ftys]
    sjobs = [{"config": "default", "mode": "dbg", "model": "arbitrary", "kind": "fn", "target": "roots::fe_%s::parse_exponent" % k,
              "pre": pre, "post": post, "frontends": True} for k in copies for pre, post in (("pos", "sat+"), ("neg", "sat-"))]
    results = run_jobs(jobs + sjobs)
    fx = F.build_many([(c, "dbg") for c in cl])
    fxs = {"%s/%s" % (c, k): fx[(c, "dbg")] for c in cl for k in copies}
    fxs.update({"saturation/%s" % k: fx[("default", "dbg")] for k in copies})
    _e4_report(rep, "C19", [r for r in results if r["job"]["kind"] == "frontend"], lambda j: "%s/%s" % (j["config"], j["target"].split("_")[2]), fxs,
               fn_filter=lambda o: o["fn"].startswith("roots::"), floor_per_group=8)
    _e4_report(rep, "C11", [r for r in results if r["job"]["kind"] == "fn"], lambda j: "saturation/%s" % j["target"].split("::")[1][3:], fxs,
               fn_filter=lambda o: o["kind"].startswith("post:"), floor_per_group=2)
    rep.floor("front-end copies analysed", len(set(j["target"].split("_")[2] for j in jobs)), 7)
    rep.analysed["copies"] = dict(F.FRONTEND_COPIES)
    rep.analysed["configurations"] = cl
    rep.note("NOT decided: that the accepted grammar is exactly the stated regular language, the value (inherits C01/C02), and that exponent "
             "saturation happens only for exponents beyond i32. The four etc/correctness copies use crates that are not available offline; their "
             "front-end functions are extracted from rustc's own pretty-printer output (-Zunpretty=normal) and compiled against the library")
    return rep.finish(
        "other",
        "Each of the 7 copies of the shipped front-end (examples/simple.rs, fuzz/fuzz_targets/parse.rs, tests/integration_tests.rs and the four "
        "etc/correctness tools) is compiled as a module of the analysis crate and executed abstractly on ARBITRARY bytes (every value 0..=255, any "
        "length) in debug MIR: no slice index, range index, arithmetic check or unwrap of the front-end's own code can fail (PROVEN from loop "
        "invariants such as index <= len, or AUDITED where the argument is about byte contents), the library is called on sub-slices of the input "
        "and the returned remainder is a sub-slice of the input; parse_exponent returns its saturation constant only on paths that imply the "
        "accumulator was about to leave the i32 range (saturates absurd exponents, and only those). The library call itself is summarised (C04/C08).",
        A_E4 + [A_TOOL, A_TARGET],
    )

def _cutoff_jobs(cfgl):
    jobs = []
    for c in cfgl:
        tgt = "minimal_lexical::bellerophon::bellerophon" if "compact" in c else "minimal_lexical::lemire::compute_float"
        jobs.append({"config": c, "mode": "dbg", "model": "valid", "kind": "fn", "target": tgt, "pre": "moderate", "post": "cutoff"})
    return jobs


EXP_FNS = ("minimal_lexical::parse::", "minimal_lexical::slow::slow", "minimal_lexical::slow::scientific_exponent", "minimal_lexical::number::")


def check_C07(tier):
    rep = Report("C07", tier)
    cl = ["default"] if tier == "quick" else E4_CONFIGS
    fx = F.build_many([(c, "rel") for c in cl])
    for cfg in cl:
        f = fx[(cfg, "rel")]
        obs = []
        for fty in ("f32", "f64"):
            obs += K.cutoff_rules(f, fty)
        rep.floor("%s: cut-off rules" % cfg, len(obs), 8)
        rep.add(cfg + " cut-offs", obs)
    mm = [("dbg", "valid"), ("rel", "valid")]
    ccl = ["default", "compact"] if tier == "quick" else E4_CONFIGS
    slow_jobs = [{"config": c, "mode": "dbg", "model": "valid", "kind": "fn", "target": "minimal_lexical::slow::slow", "post": "slow"} for c in ccl]
    results = run_jobs(_root_jobs(cl, mm) + _cutoff_jobs(ccl) + slow_jobs)
    cfx = F.build_many([(c, "rel") for c in ccl if (c, "rel") not in fx])
    fx.update(cfx)
    fxs = {"%s/%s" % (c, m): fx[(c, "rel")] for c in cl for m, _ in mm}
    fxs.update({"%s early-outs" % c: fx[(c, "rel")] for c in ccl})
    _e4_report(rep, "C07", [r for r in results if r["job"].get("post") not in ("cutoff", "slow")], lambda j: "%s/%s" % (j["config"], j["mode"]), fxs,
               fn_filter=lambda o: o["fn"].startswith(EXP_FNS), floor_per_group=10)
    _e4_report(rep, "C11", [r for r in results if r["job"].get("post") == "cutoff"], lambda j: "%s early-outs" % j["config"], fxs,
               fn_filter=lambda o: o["kind"].startswith("post:"), floor_per_group=3)
    fxs.update({"%s slow path" % c: fx[(c, "rel")] for c in ccl})
    _e4_report(rep, "C11", [r for r in results if r["job"].get("post") == "slow"], lambda j: "%s slow path" % j["config"], fxs,
               fn_filter=lambda o: o["kind"].startswith("post:slow"), floor_per_group=2)
    rep.analysed["configurations"] = cl
    rep.analysed["exponent_bookkeeping_functions"] = list(EXP_FNS)
    rep.note("NOT decided: correct rounding of subnormals and the exact overflow threshold")
    return rep.finish(
        "other",
        "(1) Cut-off rules: the decimal-exponent constants imply zero/infinity, and (E4 post-condition) every call-free exit of compute_float / "
        "bellerophon that returns a literal zero or infinity is implied by the exponent bound of its own path (10^q_lo >= 2^(bias+1), "
        "2^64*10^q_hi <= 2^(-bias-p)) -- the comparison operators, not only the constants; slow::<F> decides only through the big-integer comparison, "
        "or by an early zero/infinity that the scientific exponent of its path implies. (2) No wrap-around in exponent "
        "bookkeeping: in the functions that compute the decimal exponent (parse::*, number::*, slow::slow, slow::scientific_exponent) every narrowing "
        "integer cast is value-preserving and every non-wrapping_* `+ - *` cannot overflow, for every valid input with lengths below 2^62 and any i32 "
        "exponent, in debug and release MIR.",
        A_E4 + [A_TOOL, A_TARGET],
    )

CHECKS = {
    "C01": check_C01,
    "C02": check_C02,
    "C04": check_C04,
    "C05": check_C05,
    "C06": check_C06,
    "C07": check_C07,
    "C08": check_C08,
    "C11": check_C11,
    "C12": check_C12,
    "C13": check_C13,
    "C14": check_C14,
    "C17": check_C17,
    "C18": check_C18,
    "C19": check_C19,
    "C15": check_C15,
    "C16": check_C16,
}


def main(argv):
    if not argv:
        print("usage: check <ID> [--quick|--thorough]")
        return 2
    pid = argv[0]
    tier = "quick"
    for a in argv[1:]:
        if a == "--thorough":
            tier = "thorough"
        elif a == "--quick":
            tier = "quick"
    tier = os.environ.get("VERIF_TIER", tier) if len(argv) == 1 else tier
    if pid not in CHECKS:
        print("unknown property", pid)
        return 2
    try:
        return CHECKS[pid](tier)
    except Exception:
        # fail closed, but not as a property violation: a broken checker must not look like a pass
        traceback.print_exc()
        print("CHECK-ERROR property=%s (checker failed; no verdict)" % pid)
        return 3
