"""Per-property checks (composition of the engines)."""
import os
import sys
import traceback

from . import consts as K
from . import facts as F
from .report import Report

A_TOOL = "rustc 1.97.0-nightly MIR at -Zmir-opt-level=0 and rustc's constant evaluator represent the source (driver: /verif/driver)"
A_TARGET = "target x86_64 (64-bit limbs); the 32-bit-limb cfg alternative never type-checks here"


def cfgs(tier, quick=None, thorough=None):
    if tier == "quick":
        return quick or F.QUICK_CONFIGS
    return thorough or F.ALL_CONFIGS


# ---------------------------------------------------------------------------
def check_C14(tier):
    rep = Report("C14", tier)
    fx = F.build_many([(c, "rel") for c in cfgs(tier)])
    n_tab = 0
    for (cfg, _), f in sorted(fx.items()):
        obs = K.table_rules(f)
        rep.add(cfg, obs)
        n_tab += len(obs)
        if "compact" in cfg:
            rep.floor("%s: bellerophon table obligations" % cfg, len(obs), 1 + 10 + 10 + 66 + 70)
        else:
            rep.floor("%s: table obligations" % cfg, len(obs), 1 + 651 + 28 + 20 + 2 + 11 + 23 + 1)
    rep.analysed = {"configurations": sorted(c for c, _ in fx), "facts_sha": {c: f.sha[:16] for (c, _), f in fx.items()}}
    rep.note("not decided: exactness of powf/powd (std or bundled libm) used for float powers in compact builds; "
             "on-demand integer powers u64::pow(e) cannot overflow is proven under C08/C04 (E4)")
    return rep.finish(
        "proof",
        "Exhaustive recomputation: every entry of every stored power table (651 x 128-bit Eisel-Lemire, 28+20 integer, "
        "11+23 float, 5^135 limbs; compact: 10+66 Bellerophon significands, 10 integer powers, the log2 multiplier on every "
        "exponent the tables use) is read from rustc's constant evaluation of the current tree and compared with an independent "
        "big-integer implementation of its definition. Finite set, covered completely, in each analysed configuration.",
        [A_TOOL, A_TARGET, "POWER_OF_FIVE_128 entries are (high word, low word) as the generator prints them"],
        trusted_base=["rustc const evaluation", "Python int/Fraction arithmetic", "/verif/mlxsa/consts.py definitions"],
        checker_cmd="./check C14 --" + tier,
    )


CHECKS = {
    "C14": check_C14,
}


def main(argv):
    if not argv:
        print("usage: check <ID> [--quick|--thorough]")
        return 2
    pid = argv[0]
    tier = "quick"
    for a in argv[1:]:
        if a == "--thorough":
            tier = "thorough"
        elif a == "--quick":
            tier = "quick"
    tier = os.environ.get("VERIF_TIER", tier) if len(argv) == 1 else tier
    if pid not in CHECKS:
        print("unknown property", pid)
        return 2
    try:
        return CHECKS[pid](tier)
    except Exception:
        # fail closed, but not as a property violation: a broken checker must not look like a pass
        traceback.print_exc()
        print("CHECK-ERROR property=%s (checker failed; no verdict)" % pid)
        return 3
