"""Per-property checks (composition of the engines)."""
import os
import sys
import traceback

from . import consts as K
from . import effects as E
from . import facts as F
from .report import Report

A_TOOL = "rustc 1.97.0-nightly MIR at -Zmir-opt-level=0 and rustc's constant evaluator represent the source (driver: /verif/driver)"
A_TARGET = "target x86_64 (64-bit limbs); the 32-bit-limb cfg alternative never type-checks here"


def cfgs(tier, quick=None, thorough=None):
    if tier == "quick":
        return quick or F.QUICK_CONFIGS
    return thorough or F.ALL_CONFIGS


# ---------------------------------------------------------------------------
def check_C14(tier):
    rep = Report("C14", tier)
    fx = F.build_many([(c, "rel") for c in cfgs(tier)])
    n_tab = 0
    for (cfg, _), f in sorted(fx.items()):
        obs = K.table_rules(f)
        rep.add(cfg, obs)
        n_tab += len(obs)
        if "compact" in cfg:
            rep.floor("%s: bellerophon table obligations" % cfg, len(obs), 1 + 10 + 10 + 66 + 70)
        else:
            rep.floor("%s: table obligations" % cfg, len(obs), 1 + 651 + 28 + 20 + 2 + 11 + 23 + 1)
    rep.analysed = {"configurations": sorted(c for c, _ in fx), "facts_sha": {c: f.sha[:16] for (c, _), f in fx.items()}}
    rep.note("not decided: exactness of powf/powd (std or bundled libm) used for float powers in compact builds; "
             "on-demand integer powers u64::pow(e) cannot overflow is proven under C08/C04 (E4)")
    return rep.finish(
        "proof",
        "Exhaustive recomputation: every entry of every stored power table (651 x 128-bit Eisel-Lemire, 28+20 integer, "
        "11+23 float, 5^135 limbs; compact: 10+66 Bellerophon significands, 10 integer powers, the log2 multiplier on every "
        "exponent the tables use) is read from rustc's constant evaluation of the current tree and compared with an independent "
        "big-integer implementation of its definition. Finite set, covered completely, in each analysed configuration.",
        [A_TOOL, A_TARGET, "POWER_OF_FIVE_128 entries are (high word, low word) as the generator prints them"],
        trusted_base=["rustc const evaluation", "Python int/Fraction arithmetic", "/verif/mlxsa/consts.py definitions"],
        checker_cmd="./check C14 --" + tier,
    )


# ---------------------------------------------------------------------------
def check_C15(tier):
    rep = Report("C15", tier)
    non_alloc = ["default"] if tier == "quick" else F.NON_ALLOC_CONFIGS
    alloc_cfgs = ["compact_alloc"] if tier == "quick" else ["alloc", "compact_alloc", "nostd_alloc", "nostd_compact_alloc"]
    fx = F.build_many([(c, "rel") for c in non_alloc + alloc_cfgs])
    fixture = E.fixture_view(F.build_fixture("rel"))
    roots = ["root_f32", "root_f64"]
    R1 = "R15.1:no instance of crate alloc / allocator entry point is reachable (monomorphic call graph) from parse_float::<f32|f64>"
    R2 = "R15.2:no body, signature or field type of the library mentions an item of crate alloc"
    R3 = "R15.3:no indirect (fn-pointer / dyn) call on the reachable graph, so R15.1 is complete"
    R4 = "R15.4:the crate does not link `alloc` (no `extern crate alloc`)"
    n_inst = 0
    for cfg in non_alloc:
        v = E.lib_view(fx[(cfg, "rel")])
        obs = []
        h, n = E.r_mono_alloc(v, roots); n_inst += n
        obs += E.hits_to_obs("R15.1", R1, h, n)
        rep.floor("%s: instances reachable from parse_float" % cfg, n, 150)
        h, n = E.r_poly_alloc_mention(v)
        obs += E.hits_to_obs("R15.2", R2, h, n)
        rep.floor("%s: type/def mentions scanned" % cfg, n, 400)
        reach = E.mono_reach(v.mono, [v.mono_roots[r] for r in roots])
        h = E.indirect_calls(v.mono, reach)
        obs += E.hits_to_obs("R15.3", R3, h, len(reach))
        h, n = E.r_extern_crate_alloc(v)
        obs += E.hits_to_obs("R15.4", R4, h, n)
        st = {x["path"]: x for x in v.structs}
        rep.note("%s: struct field types: %s" % (cfg, {k: [f["ty"] for f in x["fields"]] for k, x in st.items() if "Vec" in k or "Bigint" in k}))
        rep.add(cfg, obs)
    # the same rules must see heap use where it exists: alloc configurations + fixture
    ctl = []
    for cfg in alloc_cfgs:
        v = E.lib_view(fx[(cfg, "rel")])
        h1, _ = E.r_mono_alloc(v, roots)
        h2, _ = E.r_poly_alloc_mention(v)
        ctl.append(K.Ob("control R15.1 sees Vec in `%s`" % cfg, len(h1) > 0, "%d alloc instances reachable" % len(h1),
                        "CTL:with the alloc feature the reachability rule must report the heap vector"))
        ctl.append(K.Ob("control R15.2 sees Vec in `%s`" % cfg, len(h2) > 0, "%d alloc mentions" % len(h2),
                        "CTL:with the alloc feature the mention rule must report the heap vector"))
    h, _ = E.r_mono_alloc(fixture, ["root_alloc"])
    ctl.append(E.control_obs("R15.1", R1, [E.Hit("root_alloc", x.what) for x in h], "root_alloc"))
    h, _ = E.r_poly_alloc_mention(fixture)
    for fn in ("ctl_alloc_vec", "ctl_alloc_box", "ctl_alloc_format"):
        ctl.append(E.control_obs("R15.2", R2, h, fn))
    reach = E.mono_reach(fixture.mono, [fixture.mono_roots["root_dyn"]])
    ctl.append(E.control_obs("R15.3", R3, E.indirect_calls(fixture.mono, reach), "root_dyn"))
    rep.add("controls", ctl)
    rep.analysed = {"non_alloc_configurations": non_alloc, "alloc_configurations_as_controls": alloc_cfgs,
                    "roots": roots, "mono_instances_reached": n_inst}
    return rep.finish(
        "other",
        "Effect rule over the resolved program: in every configuration without `alloc`, (1) the monomorphic call graph from "
        "parse_float::<f32> and ::<f64> (all callees resolved through rustc's Instance::try_resolve, drop glue and fn items "
        "passed as values included, panic entry points not followed) contains no instance defined in crate `alloc` and no "
        "allocator entry point; (2) no body, signature or field type anywhere in the library mentions a def-id of crate `alloc`, "
        "which covers every iterator type and every rarely taken path at once; (3) no fn-pointer/dyn call exists on that graph; "
        "(4) no `extern crate alloc`. (The field types of the big-integer storage are listed in notes, not asserted: rule 2 already covers them.) Controls: the same rules report "
        "the heap vector in the alloc configurations and Vec/Box/format! in the fixture crate on every run.",
        [A_TOOL, A_TARGET, "panic machinery (core::panicking::*, std::panicking::*) is a leaf: panics do not occur for valid input (C04)",
         "std's precompiled non-generic functions ship no MIR; the only ones reachable are powf (compact) and the panic machinery"],
    )


def check_C16(tier):
    rep = Report("C16", tier)
    cl = ["default"] if tier == "quick" else F.ALL_CONFIGS
    fx = F.build_many([(c, "rel") for c in cl])
    fixture = E.fixture_view(F.build_fixture("rel"))
    rules = [
        ("R16.1", "no static mut, no static with interior mutability, no thread-local, and no body touches one", E.r_mutable_globals, ["ctl_static_mut", "COUNTER", "TL"]),
        ("R16.2", "no body, signature or field type mentions Cell/UnsafeCell/atomics/locks", E.r_interior_mut, ["ctl_cell_local", "ctl_atomic"]),
        ("R16.4", "no pointer<->integer cast, pointer transmute, raw-pointer comparison or address-observing call", E.r_address_dependence, ["ctl_ptr_to_int", "ctl_ptr_cmp", "ctl_ptr_transmute"]),
        ("R16.5", "on a generic iterator only sequence-determined methods are called (no size_hint/len/advance_by, no type-dependent query)", E.r_iterator_discipline, ["ctl_size_hint", "ctl_type_dispatch", "ctl_size_of"]),
        ("R16.7", "no assume_init / mem::uninitialized / mem::zeroed", E.r_uninit_read, ["ctl_assume_init"]),
        ("R16.8", "inline asm only inside module fpu", E.r_asm_confined, ["ctl_asm"]),
    ]
    for cfg in cl:
        f = fx[(cfg, "rel")]
        v = E.lib_view(f)
        obs = []
        for rid, text, fn, _ctl in rules:
            h, n = fn(v)
            obs += E.hits_to_obs(rid, rid + ":" + text, h, n)
        # R16.3 foreign callees
        feats = F.cfg_features(cfg)

        def allow(m, feats=feats):
            if E.nz(m["path"]) in (E.nz("std::f32::<impl f32>::powf"), E.nz("std::f64::<impl f64>::powf")):
                return True
            if "alloc" in feats and (m["krate"] == "alloc" or m["krate"] == "std" and "alloc" in m["name"]):
                return True
            return False
        h, n = E.foreign_instances(v, ["root_f32", "root_f64", "root_chain_f64", "root_filter_f64"], allow)
        obs += E.hits_to_obs("R16.3", "R16.3:every reachable instance is defined in core or the library (allow-list: powf; Vec with alloc); nothing else can carry state", h, n)
        rep.floor("%s: mono instances reached" % cfg, n, 150)
        # R16.9 iterator-shape independence
        base = E.crate_local_shape(v, "root_f64")
        for other in ("root_chain_f64", "root_filter_f64"):
            sh = E.crate_local_shape(v, other)
            diff = []
            for k in sorted(set(base) | set(sh)):
                if base.get(k) != sh.get(k):
                    diff.append("%s: slice=%s other=%s" % (k, sorted(base.get(k, [])), sorted(sh.get(k, []))))
            obs.append(K.Ob("R16.9: %s vs root_f64" % other, not diff, "; ".join(diff)[:600] or "%d crate functions, identical callee sets" % len(base),
                            "R16.9:for Chain/Filter iterators the parser reaches the same library functions with the same library callees and the same Iterator/Clone methods as for slice iterators",
                            "harness/roots: " + other))
        rep.floor("%s: crate functions in shape" % cfg, len(base), 40)
        rep.add(cfg, obs)
    ctl = []
    for rid, text, fn, ctls in rules:
        h, _ = fn(fixture)
        for c in ctls:
            ctl.append(E.control_obs(rid, text, h, c))
    rep.add("controls", ctl)
    rep.note("E4 part (every read through a StackVec pointer is below `length`; shl_limbs/resize initialise what they expose) is reported under C13/C08")
    rep.analysed = {"configurations": cl}
    return rep.finish(
        "other",
        "Effect/ownership rules decided on the type-checked program of each configuration: no mutable or interior-mutable "
        "global state is defined, mentioned or reachable; no operation observes an address; generic iterator values are only "
        "advanced/cloned/counted (never asked for size_hint, length or type identity), and Chain/Filter instantiations reach "
        "exactly the library functions and callees the slice instantiation reaches; no uninitialised-value read API; inline "
        "asm confined to fpu. Together: the result is a function of the yielded byte sequences and the exponent, and calls "
        "share no state (thread safety follows). Each zero-count rule fires on its fixture control on every run.",
        [A_TOOL, A_TARGET, "a `well-behaved` iterator yields the same sequence from a clone and has no side effects in next/clone",
         "reads below StackVec.length only: decided by E4 (C13), not here"],
    )

# ---------------------------------------------------------------------------
# constant-rule parts shared by several properties
# ---------------------------------------------------------------------------
def _k_float(f, fty):
    obs = []
    obs += K.format_rules(f, fty)
    obs += K.fastpath_rules(f, fty)
    obs += K.tie_window_rules(f, fty)
    obs += K.cutoff_rules(f, fty)
    o, _need = K.max_digits_rules(f, fty)
    obs += o
    return obs


def _check_rounding(pid, fty, tier):
    """C01 / C02: constants + (C02) single-rounding structure. E4 parts are appended by absint when available."""
    rep = Report(pid, tier)
    cl = cfgs(tier)
    fx = F.build_many([(c, "rel") for c in cl])
    for cfg in cl:
        f = fx[(cfg, "rel")]
        obs = _k_float(f, fty)
        rep.floor("%s: K-rules for %s" % (cfg, fty), len(obs), 20)
        if fty == "f32":
            v = E.lib_view(f)
            h, n = E.r_single_rounding(v, "root_f32")
            obs += E.hits_to_obs("S", "S:no f64-typed local, no float-to-float cast and no f64-instantiated function is reachable from parse_float::<f32> (the f32 result is rounded once)", h, n)
            rep.floor("%s: instances scanned for S-rule" % cfg, n, 100)
        # tables feed the same result: reuse C14 rules as obligations of this property too
        obs += K.table_rules(f)
        rep.add(cfg, obs)
    if fty == "f32":
        fixture = E.fixture_view(F.build_fixture("rel"))
        h, _ = E.r_poly_double_round(fixture)
        rep.add("controls", [E.control_obs("S", "float-to-float cast", h, "ctl_double_round")])
    rep.analysed = {"configurations": cl, "float": fty}
    rep.note("NOT decided: that the Eisel-Lemire / Bellerophon / big-integer algorithms round correctly. Decided: the per-format constants equal their IEEE-derived definitions (equalities) or lie on the necessary side of their bound (one-sided), every table entry equals its definition" + ("; single-rounding structure" if fty == "f32" else ""))
    return rep.finish(
        "other",
        "Static necessary conditions of correct rounding for %s: (K) every Float associated constant as evaluated by rustc equals its "
        "definition from the compiler's own MANTISSA_DIGITS/MAX_EXP (masks, biases, INFINITE_POWER) or satisfies the one-sided bound whose "
        "violation must change some result (fast-path limits, tie window, decimal cut-offs, MAX_DIGITS >= longest midpoint expansion, computed "
        "exactly); (T) every power-table entry equals its definition%s. The numerical behaviour itself (nearest-even for every input) is not decided "
        "by this check." % (fty, "; (S) the f32 instantiation contains no f64 value, so the result cannot be an f64 rounded a second time" if fty == "f32" else ""),
        [A_TOOL, A_TARGET, "one-sided rules are armed only in the direction that is a necessary condition"],
    )


def check_C01(tier):
    return _check_rounding("C01", "f64", tier)


def check_C02(tier):
    return _check_rounding("C02", "f32", tier)


def check_C17(tier):
    rep = Report("C17", tier)
    cl = ["default"] if tier == "quick" else F.ALL_CONFIGS
    fx = F.build_many([(c, "rel") for c in cl])
    for cfg in cl:
        f = fx[(cfg, "rel")]
        obs = K.format_rules(f, "f32") + K.format_rules(f, "f64")
        rep.floor("%s: format constants" % cfg, len(obs), 22)
        rep.add(cfg, obs)
    rep.analysed = {"configurations": cl}
    rep.note("helper bodies (is_denormal/exponent/mantissa/extended_to_float/b/bh) are decided by the bit-level part when present; see coverage.bitlevel")
    return rep.finish(
        "other",
        "All mask/bias/size constants of both Float impls, as evaluated by rustc, equal the IEEE-754 definitions derived from the compiler's "
        "own MANTISSA_DIGITS and MAX_EXP (11 equalities per format), in every configuration.",
        [A_TOOL, A_TARGET],
    )


def check_C06(tier):
    rep = Report("C06", tier)
    cl = ["default"] if tier == "quick" else F.ALL_CONFIGS
    fx = F.build_many([(c, "rel") for c in cl])
    need = {}
    for cfg in cl:
        f = fx[(cfg, "rel")]
        obs = []
        for fty in ("f32", "f64"):
            o, n = K.max_digits_rules(f, fty)
            need[fty] = n
            obs += o
        obs += K.capacity_rules(f)
        rep.add(cfg, obs)
    rep.analysed = {"configurations": cl, "longest_midpoint_digits": need}
    rep.note("NOT decided: rounding of the truncated value. Decided: MAX_DIGITS is at least the longest exact decimal expansion of any midpoint between adjacent floats (computed by big-integer enumeration over all binades), and retaining that many digits fits the big-integer capacity")
    return rep.finish(
        "other",
        "Necessary condition of long-input rounding: MAX_DIGITS >= D_mid(F), where D_mid is computed exactly (768 for f64, 113 for f32 on IEEE parameters "
        "taken from the compiler); with fewer retained digits an exact tie is replaced by prefix||1 < tie and rounds the wrong way. Plus the capacity "
        "formula of DESIGN appendix B evaluated on the extracted constants.",
        [A_TOOL, A_TARGET],
    )


def check_C07(tier):
    rep = Report("C07", tier)
    cl = cfgs(tier)
    fx = F.build_many([(c, "rel") for c in cl])
    for cfg in cl:
        f = fx[(cfg, "rel")]
        obs = []
        for fty in ("f32", "f64"):
            obs += K.cutoff_rules(f, fty)
        rep.floor("%s: cut-off rules" % cfg, len(obs), 8)
        rep.add(cfg, obs)
    rep.analysed = {"configurations": cl}
    return rep.finish(
        "other",
        "Cut-off rules: the decimal-exponent early-outs of both moderate stages imply the value they return (2^64 * 10^(S-1) is at most half the "
        "smallest subnormal; 10^(L+1) is at least 2^(bias+1); same for the Bellerophon table range), and lie inside the power tables.",
        [A_TOOL, A_TARGET],
    )


def check_C11(tier):
    rep = Report("C11", tier)
    cl = cfgs(tier)
    fx = F.build_many([(c, "rel") for c in cl])
    for cfg in cl:
        f = fx[(cfg, "rel")]
        obs = []
        for fty in ("f32", "f64"):
            obs += K.tie_window_rules(f, fty)
            obs += K.cutoff_rules(f, fty)
        obs += K.table_rules(f)
        rep.add(cfg, obs)
    rep.analysed = {"configurations": cl}
    return rep.finish(
        "other",
        "Constant part of the middle stage: tie-window bounds (one-sided), table coverage of [SMALLEST,LARGEST]_POWER_OF_TEN, every table significand "
        "equals its definition and has its top bit set. Whether a definite answer is the correctly rounded one is NOT decided.",
        [A_TOOL, A_TARGET],
    )


def check_C18(tier):
    rep = Report("C18", tier)
    cl = ["default"] if tier == "quick" else F.ALL_CONFIGS
    fx = F.build_many([(c, "rel") for c in cl])
    for cfg in cl:
        f = fx[(cfg, "rel")]
        obs = []
        for fty in ("f32", "f64"):
            keep = ("CARRY_MASK", "HIDDEN_BIT_MASK", "MANTISSA_MASK", "INFINITE_POWER", "MANTISSA_SIZE")
            obs += [o for o in K.format_rules(f, fty) if o.key.split("::")[1] in keep]
        rep.floor("%s: rounding constants" % cfg, len(obs), 10)
        rep.add(cfg, obs)
    rep.analysed = {"configurations": cl}
    return rep.finish(
        "other",
        "Constants the rounding primitive consumes (CARRY_MASK, HIDDEN_BIT_MASK, MANTISSA_MASK, INFINITE_POWER, MANTISSA_SIZE) equal their definitions for both formats.",
        [A_TOOL, A_TARGET],
    )


def check_C12(tier):
    rep = Report("C12", tier)
    cl = cfgs(tier)
    fx = F.build_many([(c, "rel") for c in cl])
    fixture = E.fixture_view(F.build_fixture("rel"))
    R = "R12.1:the Option/Result returned by a library function is never dropped unread (consumed by ?, unwrap, a match, or returned)"
    for cfg in cl:
        f = fx[(cfg, "rel")]
        v = E.lib_view(f)
        h, n = E.r_dropped_failure(v)
        obs = E.hits_to_obs("R12.1", R, h, n)
        rep.floor("%s: fallible call sites" % cfg, n, 40)
        obs += [o for o in K.table_rules(f) if o.key.startswith(("LARGE_POW5", "SMALL_INT_POW5"))]
        rep.add(cfg, obs)
    h, _ = E.r_dropped_failure(fixture)
    ctl = [E.control_obs("R12.1", R, h, "ctl_dropped_failure")]
    hok = [x for x in h if x.fn == "ok_used_failure"]
    ctl.append(K.Ob("control R12.1 silent on fixtures/bad::ok_used_failure", not hok, "%d hits" % len(hok), "CTL:the accepted idioms (?, unwrap, is_none) are not reported"))
    rep.add("controls", ctl)
    rep.analysed = {"configurations": cl}
    return rep.finish(
        "other",
        "Failure discipline: every call to a library function returning Option/Result has its result read (MIR def-use), so a capacity failure "
        "cannot be silently ignored; LARGE_POW5 = 5^LARGE_POW5_STEP and SMALL_INT_POW5 exact. Exactness of the carry chains is NOT decided here.",
        [A_TOOL, A_TARGET],
    )


def check_C05(tier):
    rep = Report("C05", tier)
    cl = cfgs(tier)
    fx = F.build_many([(c, "rel") for c in cl])
    rep.add("cross-configuration", K.cross_config_rules({c: fx[(c, "rel")] for c in cl}))
    for cfg in cl:
        f = fx[(cfg, "rel")]
        obs = K.table_rules(f)
        for fty in ("f32", "f64"):
            obs += K.cutoff_rules(f, fty)
        if "compact" in cfg:
            bp = f.consts["table_bellerophon::BASE10_POWERS"]
            sint = [int(x) for x in bp["small_int"]["slice"]]
            obs.append(K.Ob("BASE10_SMALL_INT_POWERS = 10^i", all(v == 10 ** i for i, v in enumerate(sint)), "%d entries" % len(sint),
                            "X:compact integer powers equal the default configuration's SMALL_INT_POW10 definition (10^i)"))
        rep.add(cfg, obs)
    rep.analysed = {"configurations": cl}
    rep.note("NOT decided: bit-equality of Eisel-Lemire vs Bellerophon, or of table look-ups vs powf. Decided: constants shared by name agree in all analysed configurations; each configuration-specific table meets the same definition-level contract")
    return rep.finish(
        "other",
        "Sibling contracts across feature configurations: every constant with the same name evaluates to the same value in all analysed "
        "configurations; the configuration-specific tables (Eisel-Lemire / small tables vs Bellerophon) each equal their definitions and their cut-offs "
        "imply the same zero/infinity decisions.",
        [A_TOOL, A_TARGET],
    )

CHECKS = {
    "C01": check_C01,
    "C02": check_C02,
    "C05": check_C05,
    "C06": check_C06,
    "C07": check_C07,
    "C11": check_C11,
    "C12": check_C12,
    "C14": check_C14,
    "C17": check_C17,
    "C18": check_C18,
    "C15": check_C15,
    "C16": check_C16,
}


def main(argv):
    if not argv:
        print("usage: check <ID> [--quick|--thorough]")
        return 2
    pid = argv[0]
    tier = "quick"
    for a in argv[1:]:
        if a == "--thorough":
            tier = "thorough"
        elif a == "--quick":
            tier = "quick"
    tier = os.environ.get("VERIF_TIER", tier) if len(argv) == 1 else tier
    if pid not in CHECKS:
        print("unknown property", pid)
        return 2
    try:
        return CHECKS[pid](tier)
    except Exception:
        # fail closed, but not as a property violation: a broken checker must not look like a pass
        traceback.print_exc()
        print("CHECK-ERROR property=%s (checker failed; no verdict)" % pid)
        return 3
