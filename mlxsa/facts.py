"""E1 front: run the mlx-facts driver on /repo's working tree and load the facts."""
import json
import os
import shutil
import subprocess
import sys
import tempfile
import hashlib
from concurrent.futures import ThreadPoolExecutor

VERIF = os.path.dirname(os.path.dirname(os.path.abspath(__file__)))
REPO = os.environ.get("MLX_REPO", "/repo")
DRIVER_DIR = os.path.join(VERIF, "driver")
DRIVER_BIN = os.path.join(DRIVER_DIR, "target", "release", "mlx-facts")
ROOTS_DIR = os.path.join(VERIF, "harness", "roots")
FIXTURE_DIR = os.path.join(VERIF, "fixtures", "bad")

# name -> cargo feature flags (of the roots crate, forwarded 1:1 to minimal-lexical)
CONFIGS = {
    "default": [],
    "compact": ["--features", "compact"],
    "alloc": ["--features", "alloc"],
    "compact_alloc": ["--features", "compact,alloc"],
    "nostd": ["--no-default-features"],
    "nostd_compact": ["--no-default-features", "--features", "compact"],
    "nostd_alloc": ["--no-default-features", "--features", "alloc"],
    "nostd_compact_alloc": ["--no-default-features", "--features", "compact,alloc"],
}
ALL_CONFIGS = list(CONFIGS)
QUICK_CONFIGS = ["default", "compact_alloc"]
NON_ALLOC_CONFIGS = ["default", "compact", "nostd", "nostd_compact"]


def cfg_features(config):
    """set of minimal-lexical features enabled in a configuration"""
    f = set()
    if not config.startswith("nostd"):
        f.add("std")
    if "compact" in config:
        f.add("compact")
    if "alloc" in config:
        f.add("alloc")
    return f


class FactsError(Exception):
    pass


# ---------------------------------------------------------------------------
# E5: the shipped string front-end and its copies
# ---------------------------------------------------------------------------
FRONTEND_COPIES = [
    ("simple", "examples/simple.rs"),
    ("fuzz", "fuzz/fuzz_targets/parse.rs"),
    ("integ", "tests/integration_tests.rs"),
    ("rng", "etc/correctness/rng-tests/_common.rs"),
    ("golang", "etc/correctness/test-parse-golang/main.rs"),
    ("random", "etc/correctness/test-parse-random/_common.rs"),
    ("unit", "etc/correctness/test-parse-unittests/main.rs"),
]
FRONTEND_FNS = ["parse_sign", "to_digit", "add_digit_i32", "sub_digit_i32", "is_digit", "split_at_index", "consume_digits",
                "ltrim_zero", "rtrim_zero", "parse_exponent", "case_insensitive_starts_with", "parse_float"]


def _skip_literal(src, i):
    """index after a string / char / byte literal starting at i, or i"""
    c = src[i]
    if c == '"':
        j = i + 1
        while j < len(src) and src[j] != '"':
            j += 2 if src[j] == "\\" else 1
        return j + 1
    if c == "'":
        # char literal 'x' or '\x'; lifetimes ('a) have no closing quote within 4 chars
        if i + 2 < len(src) and src[i + 1] != "\\" and src[i + 2] == "'":
            return i + 3
        if i + 3 < len(src) and src[i + 1] == "\\" and src[i + 3] == "'":
            return i + 4
    return i


def extract_frontend(path):
    """front-end functions of one copy, taken from rustc's own pretty-printer output (-Zunpretty=normal: parsed, not
    resolved, so copies whose other dependencies are not available still work)"""
    r = subprocess.run(["rustc", "+nightly", "-Zunpretty=normal", "--crate-type", "lib", "--edition", "2018", path],
                       capture_output=True, text=True)
    if r.returncode != 0 or not r.stdout:
        raise FactsError("cannot parse front-end copy %s:\n%s" % (path, r.stderr[-2000:]))
    src = r.stdout
    import re

    def item_at(start):
        i = src.index("{", start)
        depth = 0
        j = i
        while j < len(src):
            k = _skip_literal(src, j)
            if k != j:
                j = k
                continue
            if src.startswith("//", j):
                j = src.index("\n", j)
                continue
            if src[j] == "{":
                depth += 1
            elif src[j] == "}":
                depth -= 1
                if depth == 0:
                    break
            j += 1
        return src[start:j + 1]

    # every free function at the top level of the file ...
    items = {}
    for m in re.finditer(r"^(?:pub )?(?:unsafe )?fn ([A-Za-z_][A-Za-z0-9_]*)\b", src, re.M):
        if m.group(1) not in items:
            items[m.group(1)] = item_at(m.start())
    # ... restricted to what `parse_float` (the front-end's entry point) references, transitively: helper functions that a
    # refactoring adds or renames are picked up, test functions and `main` are not
    found = []
    todo = ["parse_float"]
    while todo:
        name = todo.pop()
        if name in found or name not in items:
            continue
        found.append(name)
        body = items[name]
        # any mention counts (a function may be passed as a value, `accumulate(exponent, add_digit_i32, MAX)`), not only calls
        for ident in set(re.findall(r"\b([A-Za-z_][A-Za-z0-9_]*)\b", body)):
            if ident in items and ident not in found:
                todo.append(ident)
    out = []
    for name in sorted(found):
        item = items[name]
        if not item.startswith("pub "):
            item = "pub " + item
        out.append("#[inline]\n" + item)
    return "\n\n".join(out) + "\n", found


def _sysroot_lib():
    out = subprocess.run(["rustc", "+nightly", "--print", "sysroot"], capture_output=True, text=True, check=True)
    return os.path.join(out.stdout.strip(), "lib")


_SYSROOT_LIB = None


def ensure_driver():
    """Build the driver if the binary is missing or older than its source."""
    src = os.path.join(DRIVER_DIR, "src", "main.rs")
    if os.path.exists(DRIVER_BIN) and os.path.getmtime(DRIVER_BIN) >= os.path.getmtime(src):
        return
    env = dict(os.environ, CARGO_NET_OFFLINE="true")
    r = subprocess.run(["cargo", "build", "--release", "--offline"], cwd=DRIVER_DIR, env=env,
                       capture_output=True, text=True)
    if r.returncode != 0:
        raise FactsError("driver build failed:\n" + r.stderr[-4000:])


def _run_driver(crate_dir, cargo_flags, mode, mono_crates, extra_roots="", features_extra=None, repo=None):
    """mode: 'dbg' (debug-assertions + overflow-checks on) or 'rel' (both off)."""
    global _SYSROOT_LIB
    if _SYSROOT_LIB is None:
        _SYSROOT_LIB = _sysroot_lib()
    ensure_driver()
    scratch = tempfile.mkdtemp(prefix="mlxsa-")
    try:
        facts_dir = os.path.join(scratch, "facts")
        os.makedirs(facts_dir)
        work = crate_dir
        gen = features_extra == "frontends"
        if gen or (repo is not None and repo != "/repo"):
            # analysis of a scratch copy of the repository: rewrite the path dependency
            work = os.path.join(scratch, "crate")
            shutil.copytree(crate_dir, work, ignore=shutil.ignore_patterns("target"))
            if gen:
                lib = os.path.join(work, "src", "lib.rs")
                add = ["\n// ---- generated: front-end copies (E5) ----"]
                for tag, rel in FRONTEND_COPIES:
                    code, found = extract_frontend(os.path.join(repo or REPO, rel))
                    if "parse_float" not in found or len(found) < 10:
                        raise FactsError("front-end copy %s: only found %s" % (rel, found))
                    with open(os.path.join(work, "src", "fe_%s.rs" % tag), "w") as f:
                        f.write("#![allow(dead_code, unused, clippy::all)]\nextern crate minimal_lexical;\n" + code)
                    add.append("#[cfg(feature = \"frontends\")]\nmod fe_%s;" % tag)
                    for fty in ("f64", "f32"):
                        add.append("#[cfg(feature = \"frontends\")]\npub fn root_fe_%s_%s(b: &[u8]) -> (%s, &[u8]) { fe_%s::parse_float::<%s>(b) }" % (tag, fty, fty, tag, fty))
                with open(lib, "a") as f:
                    f.write("\n".join(add) + "\n")
            for root, _d, files in os.walk(work):
                for fn in files:
                    if fn.endswith((".toml", ".rs")):
                        p = os.path.join(root, fn)
                        s = open(p).read()
                        if "/repo" in s and repo and repo != "/repo":
                            open(p, "w").write(s.replace('"/repo', '"' + repo))
        onoff = "on" if mode == "dbg" else "off"
        env = dict(os.environ)
        env.update({
            "LD_LIBRARY_PATH": _SYSROOT_LIB + (":" + env["LD_LIBRARY_PATH"] if env.get("LD_LIBRARY_PATH") else ""),
            "RUSTFLAGS": "-Zmir-opt-level=0 -Zalways-encode-mir -Awarnings -Cdebug-assertions=%s -Coverflow-checks=%s" % (onoff, onoff),
            "RUSTC_WRAPPER": DRIVER_BIN,
            "MLX_FACTS_DIR": facts_dir,
            "MLX_MONO_CRATES": mono_crates,
            "MLX_EXTRA_ROOTS": extra_roots,
            "CARGO_TARGET_DIR": os.path.join(scratch, "target"),
            "CARGO_NET_OFFLINE": "true",
        })
        env.pop("RUSTC_WORKSPACE_WRAPPER", None)
        flags = list(cargo_flags)
        if features_extra:
            # merge extra features into an existing --features flag
            if "--features" in flags:
                i = flags.index("--features")
                flags[i + 1] = flags[i + 1] + "," + features_extra
            else:
                flags += ["--features", features_extra]
        cmd = ["cargo", "+nightly", "check", "--offline", "--lib"] + flags
        r = subprocess.run(cmd, cwd=work, env=env, capture_output=True, text=True)
        if r.returncode != 0:
            raise FactsError("cargo check failed (%s):\n%s" % (" ".join(cmd), r.stderr[-6000:]))
        out = {}
        for fn in os.listdir(facts_dir):
            if fn.endswith(".json"):
                with open(os.path.join(facts_dir, fn), "rb") as f:
                    raw = f.read()
                d = json.loads(raw)
                d["_sha256"] = hashlib.sha256(raw).hexdigest()
                out[fn[:-5]] = d
        return out
    finally:
        shutil.rmtree(scratch, ignore_errors=True)


class Facts:
    """Facts of one (configuration, mode) build: library crate + roots crate."""

    def __init__(self, config, mode, raw):
        self.config = config
        self.mode = mode
        if "minimal_lexical" not in raw or "roots" not in raw:
            raise FactsError("fact files missing for %s/%s: %s" % (config, mode, sorted(raw)))
        self.lib = raw["minimal_lexical"]
        self.roots = raw["roots"]
        want = (mode == "dbg")
        for d in (self.lib, self.roots):
            if d["debug_assertions"] != want or d["overflow_checks"] != want:
                raise FactsError("fact file %s built with wrong assertion flags" % d["crate"])
        self.sha = hashlib.sha256((self.lib["_sha256"] + self.roots["_sha256"]).encode()).hexdigest()
        self._consts = None
        self._mono = None

    # -- constants --------------------------------------------------------
    @property
    def consts(self):
        if self._consts is None:
            c = {}
            for src in (self.lib, self.roots):
                for e in src["consts"]:
                    v = e["value"]
                    if e["path"] in c and c[e["path"]] != v:
                        raise FactsError("const %s evaluated to two different values" % e["path"])
                    c[e["path"]] = v
                for e in src["statics"]:
                    c[e["path"]] = e["value"]
            self._consts = c
        return self._consts

    def const_int(self, path):
        v = self.consts.get(path)
        if not isinstance(v, str):
            raise KeyError(path)
        return int(v)

    def float_const(self, fty, name):
        return self.const_int("<%s as num::Float>::%s" % (fty, name))

    # -- mono ---------------------------------------------------------------
    @property
    def mono(self):
        if self._mono is None:
            self._mono = {m["id"]: m for m in self.roots["mono"]}
        return self._mono

    def root_id(self, name):
        for n, i in self.roots["mono_roots"]:
            if n == name:
                return i
        raise KeyError(name)

    def bodies(self):
        return self.lib["bodies"]


def build(config, mode, frontends=False, repo=None):
    extra = ""
    raw = _run_driver(ROOTS_DIR, CONFIGS[config], mode, "roots", extra_roots=extra,
                      features_extra="frontends" if frontends else None, repo=repo or REPO)
    return Facts(config, mode, raw)


def build_many(pairs, frontends=False, repo=None, workers=8):
    """pairs: list of (config, mode). Returns {(config, mode): Facts}."""
    ensure_driver()
    with ThreadPoolExecutor(max_workers=workers) as ex:
        futs = {p: ex.submit(build, p[0], p[1], frontends, repo) for p in pairs}
        return {p: f.result() for p, f in futs.items()}


def build_fixture(mode="dbg"):
    raw = _run_driver(FIXTURE_DIR, [], mode, "bad", repo=None)
    if "bad" not in raw:
        raise FactsError("fixture facts missing")
    return raw["bad"]


if __name__ == "__main__":
    f = build(sys.argv[1] if len(sys.argv) > 1 else "default", sys.argv[2] if len(sys.argv) > 2 else "dbg")
    print(f.config, f.mode, len(f.lib["bodies"]), "bodies", len(f.mono), "mono instances", len(f.consts), "consts")
