"""Abstract domain of E4: typeless integer atoms with intervals, difference-bound
facts between atoms, pointers/objects as immutable descriptors, and states as
maps from memory cells to atoms.

An *atom* denotes one fixed (unknown) mathematical value along an execution
path.  Atoms are immutable and global; a state only carries *refinements* of
their intervals.  Pure operations are hash-consed, so recomputing `a + b` or
`a < b` from the same operand atoms yields the same atom, which gives a cheap
relational flavour (a branch on `n + len > cap` refines the very atom later
used as the new length).
"""
import itertools

INF = 1 << 200


class G:
    """global atom tables (reset per analysis run)"""
    ctr = itertools.count(1)
    base = {}    # atom -> (lo, hi) for integer/bool atoms
    df = {}      # atom -> definition tuple
    ptr = {}     # atom -> pointer descriptor
    obj = {}     # atom -> object payload
    cons = {}    # hash-cons key -> atom
    frames = itertools.count(1)

    @classmethod
    def reset(cls):
        cls.ctr = itertools.count(1)
        cls.base = {}
        cls.df = {}
        cls.ptr = {}
        cls.obj = {}
        cls.cons = {}
        cls.frames = itertools.count(1)


def trange(ty):
    k = ty.get("k")
    if k == "bool":
        return (0, 1)
    if k == "int":
        b = ty["bits"]
        if ty["signed"]:
            return (-(1 << (b - 1)), (1 << (b - 1)) - 1)
        return (0, (1 << b) - 1)
    return None


def new_int(lo, hi, df=None):
    a = next(G.ctr)
    G.base[a] = (lo, hi)
    if df is not None:
        G.df[a] = df
    return a


def const_int(v):
    k = ("c", v)
    a = G.cons.get(k)
    if a is None:
        a = new_int(v, v, ("const", v))
        G.cons[k] = a
    return a


def new_ptr(desc):
    k = ("p", desc)
    try:
        a = G.cons.get(k)
    except TypeError:
        a = None
        k = None
    if a is None:
        a = next(G.ctr)
        G.ptr[a] = desc
        if k is not None:
            G.cons[k] = a
    return a


def new_obj(payload):
    a = next(G.ctr)
    G.obj[a] = payload
    return a


def new_top():
    return next(G.ctr)


def is_int(a):
    return type(a) is int and a in G.base


class Env:
    """memory cells, two-level: frame id -> {key -> atom}; key = (frame, local, *path)"""
    __slots__ = ("f",)

    def __init__(self):
        self.f = {}

    def copy(self):
        n = Env()
        n.f = {fr: dict(d) for fr, d in self.f.items()}
        return n

    def get(self, key, default=None):
        d = self.f.get(key[0])
        if d is None:
            return default
        return d.get(key, default)

    def __getitem__(self, key):
        return self.f[key[0]][key]

    def __setitem__(self, key, val):
        d = self.f.get(key[0])
        if d is None:
            d = self.f[key[0]] = {}
        d[key] = val

    def __delitem__(self, key):
        del self.f[key[0]][key]

    def __contains__(self, key):
        d = self.f.get(key[0])
        return d is not None and key in d

    def pop(self, key, default=None):
        d = self.f.get(key[0])
        if d is None:
            return default
        return d.pop(key, default)

    def items(self):
        for d in self.f.values():
            yield from d.items()

    def __iter__(self):
        for d in self.f.values():
            yield from d

    def frame(self, fr):
        return self.f.get(fr) or {}

    def drop_frame(self, fr):
        self.f.pop(fr, None)

    def __len__(self):
        return sum(len(d) for d in self.f.values())


class St:
    __slots__ = ("env", "iv", "facts", "ghost", "_idx")

    def __init__(self):
        self.env = Env()  # key -> atom
        self.iv = {}      # atom -> (lo, hi) refinement
        self.facts = {}   # (a, b) -> c   meaning  a - b <= c
        self.ghost = {}   # misc ghost cells (loop counters ...): key -> atom
        self._idx = None  # lazily built index of facts by atom

    def copy(self):
        n = St()
        n.env = self.env.copy()
        n.iv = dict(self.iv)
        n.facts = dict(self.facts)
        n.ghost = dict(self.ghost)
        return n

    def fidx(self):
        ix = self._idx
        if ix is None or ix[0] != len(self.facts):
            up, lo = {}, {}
            for (x, y), c in self.facts.items():
                up.setdefault(x, []).append((y, c))
                lo.setdefault(y, []).append((x, c))
            ix = self._idx = (len(self.facts), up, lo)
        return ix

    # -- intervals --------------------------------------------------------
    def raw_iv(self, a):
        r = self.iv.get(a)
        if r is None:
            r = G.base.get(a)
        return r

    def fwd_iv(self, a, depth=0):
        """raw interval, re-evaluated forwards through the atom's definition (operands may have been refined since)"""
        r = self.iv.get(a) or G.base.get(a)
        if r is None or depth > 2:
            return r
        d = G.df.get(a)
        if not d:
            return r
        k = d[0]
        lo, hi = r
        n = None
        if k == "addc":
            x = self.fwd_iv(d[1], depth + 1)
            n = (x[0] + d[2], x[1] + d[2])
        elif k == "divc":
            x = self.fwd_iv(d[1], depth + 1)
            if x[0] >= 0:
                n = (x[0] // d[2], x[1] // d[2])
            else:
                m = max(abs(x[0]), abs(x[1])) // d[2]
                n = (-m if x[0] < 0 else 0, m if x[1] > 0 else 0)
        elif k == "remc":
            x = self.fwd_iv(d[1], depth + 1)
            if x[0] >= 0:
                n = (0, min(x[1], d[2] - 1))
            else:
                n = (-(d[2] - 1), d[2] - 1 if x[1] > 0 else 0)
        elif k == "mulc":
            x = self.fwd_iv(d[1], depth + 1)
            n = (x[0] * d[2], x[1] * d[2])
        elif k == "shr_c":
            x = self.fwd_iv(d[1], depth + 1)
            n = (x[0] >> d[2], x[1] >> d[2])
        elif k == "neg":
            x = self.fwd_iv(d[1], depth + 1)
            n = (-x[1], -x[0])
        elif k == "add":
            x, y = self.fwd_iv(d[1], depth + 1), self.fwd_iv(d[2], depth + 1)
            n = (x[0] + y[0], x[1] + y[1])
        elif k == "sub":
            x, y = self.fwd_iv(d[1], depth + 1), self.fwd_iv(d[2], depth + 1)
            n = (x[0] - y[1], x[1] - y[0])
        elif k == "wrapped":
            # value of a checked operation: exact when its overflow flag is known to be clear
            ov = self.iv.get(d[4]) if len(d) > 4 else None
            if ov == (0, 0):
                x, y = self.fwd_iv(d[2], depth + 1), self.fwd_iv(d[3], depth + 1)
                if d[1] == "Add":
                    n = (x[0] + y[0], x[1] + y[1])
                elif d[1] == "Sub":
                    n = (x[0] - y[1], x[1] - y[0])
                else:
                    c = [x[0] * y[0], x[0] * y[1], x[1] * y[0], x[1] * y[1]]
                    n = (min(c), max(c))
        if n is not None:
            lo, hi = max(lo, n[0]), min(hi, n[1])
            if lo > hi:
                return r
        return (lo, hi)

    def get_iv(self, a):
        """interval re-evaluated through definitions and tightened by one level of difference facts"""
        r = self.fwd_iv(a) if a in G.df else self.raw_iv(a)
        if r is None:
            return None
        lo, hi = r
        if self.facts:
            _n, up, low = self.fidx()
            u = up.get(a)
            if u:
                for y, c in u:
                    c = self.facts.get((a, y), c)
                    ry = self.iv.get(y) or G.base.get(y)
                    if ry is not None and ry[1] + c < hi:
                        hi = ry[1] + c
            l = low.get(a)
            if l:
                for x, c in l:
                    c = self.facts.get((x, a), c)
                    rx = self.iv.get(x) or G.base.get(x)
                    if rx is not None and rx[0] - c > lo:
                        lo = rx[0] - c
        return (lo, hi)

    def set_iv(self, a, lo, hi):
        """refine; returns False if the state becomes infeasible"""
        r = self.raw_iv(a)
        if r is None:
            return True
        lo = max(lo, r[0])
        hi = min(hi, r[1])
        if lo > hi:
            return False
        if (lo, hi) != r:
            self.iv[a] = (lo, hi)
            if self.facts and not self._facts_ok(a, lo, hi):
                return False
            return self._backprop(a, lo, hi, 0)
        return True

    def _facts_ok(self, a, lo, hi):
        _n, up, low = self.fidx()
        for y, c in up.get(a, ()):
            c = self.facts.get((a, y), c)
            ry = self.raw_iv(y)
            if ry is not None and lo - ry[1] > c:
                return False
        for x, c in low.get(a, ()):
            c = self.facts.get((x, a), c)
            rx = self.raw_iv(x)
            if rx is not None and rx[0] - hi > c:
                return False
        return True

    def _backprop(self, a, lo, hi, depth):
        if depth > 6:
            return True
        d = G.df.get(a)
        if not d:
            return True
        k = d[0]
        if k == "addc":      # a = d[1] + d[2] exactly
            return self.set_iv_d(d[1], lo - d[2], hi - d[2], depth + 1)
        if k == "neg":
            return self.set_iv_d(d[1], -hi, -lo, depth + 1)
        if k == "add":       # a = x + y exactly
            x, y = d[1], d[2]
            rx, ry = self.raw_iv(x), self.raw_iv(y)
            if rx and ry:
                if not self.set_iv_d(x, lo - ry[1], hi - ry[0], depth + 1):
                    return False
                rx = self.raw_iv(x)
                if not self.set_iv_d(y, lo - rx[1], hi - rx[0], depth + 1):
                    return False
            return True
        if k == "sub":
            x, y = d[1], d[2]
            rx, ry = self.raw_iv(x), self.raw_iv(y)
            if rx and ry:
                if not self.set_iv_d(x, lo + ry[0], hi + ry[1], depth + 1):
                    return False
                rx = self.raw_iv(x)
                if not self.set_iv_d(y, rx[0] - hi, rx[1] - lo, depth + 1):
                    return False
            return True
        if k == "not" and (lo, hi) in ((0, 0), (1, 1)):
            return self.refine_bool(d[1], lo == 0, depth + 1)
        if k == "cmp" and lo == hi:
            return self.refine_cmp(d[1], d[2], d[3], lo == 1, depth + 1)
        if k == "band" and lo == hi == 1:   # bool and
            return self.refine_bool(d[1], True, depth + 1) and self.refine_bool(d[2], True, depth + 1)
        if k == "bor" and lo == hi == 0:
            return self.refine_bool(d[1], False, depth + 1) and self.refine_bool(d[2], False, depth + 1)
        if k == "wrapped" and len(d) > 4 and self.iv.get(d[4]) == (0, 0):
            # value of a checked operation whose overflow flag is clear: exact, so bounds propagate to the operand
            _k, op, x, y = d[:4]
            ry = self.raw_iv(y)
            if ry and ry[0] == ry[1]:
                c = ry[0]
                if op == "Mul" and c > 0:
                    return self.set_iv_d(x, -((-lo) // c), hi // c, depth + 1)
                if op == "Add":
                    return self.set_iv_d(x, lo - c, hi - c, depth + 1)
                if op == "Sub":
                    return self.set_iv_d(x, lo + c, hi + c, depth + 1)
            return True
        if k == "mulc":    # a = x * c (exact), c > 0
            c = d[2]
            return self.set_iv_d(d[1], -((-lo) // c), hi // c, depth + 1)
        if k == "ovf" and lo == hi == 1:
            # the checked operation DID overflow: refine an operand when the other one is a constant of known sign
            _k, op, x, y, bits, signed = d
            tmax = (1 << (bits - 1)) - 1 if signed else (1 << bits) - 1
            tmin = -(1 << (bits - 1)) if signed else 0
            rx, ry = self.raw_iv(x), self.raw_iv(y)
            if rx and ry:
                if op == "Mul" and ry[0] == ry[1] and ry[0] > 0:
                    c = ry[0]
                    if rx[0] >= 0:
                        return self.set_iv_d(x, tmax // c + 1, rx[1], depth + 1)
                    if rx[1] <= 0:
                        return self.set_iv_d(x, rx[0], -((-tmin) // c) - 1, depth + 1)
                elif op == "Add" and ry[0] >= 0:
                    return self.set_iv_d(x, tmax - ry[1] + 1, rx[1], depth + 1)
                elif op == "Sub" and ry[0] >= 0:
                    return self.set_iv_d(x, rx[0], tmin + ry[1] - 1, depth + 1)
            return True
        if k == "shr_c":   # a = x >> c
            x, c = d[1], d[2]
            return self.set_iv_d(x, lo << c, ((hi + 1) << c) - 1, depth + 1)
        if k == "xor1":    # a = x ^ 1 with x in {0,1}
            return self.set_iv_d(d[1], 1 - hi, 1 - lo, depth + 1)
        return True

    def set_iv_d(self, a, lo, hi, depth):
        r = self.raw_iv(a)
        if r is None:
            return True
        lo = max(lo, r[0])
        hi = min(hi, r[1])
        if lo > hi:
            return False
        if (lo, hi) != r:
            self.iv[a] = (lo, hi)
            if self.facts and not self._facts_ok(a, lo, hi):
                return False
            return self._backprop(a, lo, hi, depth)
        return True

    # -- facts --------------------------------------------------------------
    def add_fact(self, a, b, c):
        """a - b <= c"""
        if a == b:
            return c >= 0
        ra, rb = self.raw_iv(a), self.raw_iv(b)
        if ra and rb:
            if ra[0] - rb[1] > c:
                return False       # infeasible
            if ra[1] - rb[0] <= c:
                return True        # implied by intervals
        old = self.facts.get((a, b))
        if old is None or c < old:
            self.facts[(a, b)] = c
        # tighten intervals
        if ra and rb:
            if not self.set_iv(a, ra[0], rb[1] + c):
                return False
            ra = self.raw_iv(a)
            if not self.set_iv(b, ra[0] - c, rb[1]):
                return False
        return True

    def diff_le(self, a, b, c, depth=0):
        """is  a - b <= c  entailed?"""
        if a == b:
            return 0 <= c
        ra, rb = self.get_iv(a), self.get_iv(b)
        if ra and rb and ra[1] - rb[0] <= c:
            return True
        f = self.facts.get((a, b))
        if f is not None and f <= c:
            return True
        if depth >= 4:
            return False
        da = G.df.get(a)
        if da and da[0] == "addc" and self.diff_le(da[1], b, c - da[2], depth + 1):
            return True
        db = G.df.get(b)
        if db and db[0] == "addc" and self.diff_le(a, db[1], c + db[2], depth + 1):
            return True
        if da and da[0] == "min" and (self.diff_le(da[1], b, c, depth + 1) or self.diff_le(da[2], b, c, depth + 1)):
            return True
        if db and db[0] == "add":
            # a - (x + y) <= c  <=  a - x <= c + lo(y)   (and symmetrically)
            x, y = db[1], db[2]
            ry, rx = self.raw_iv(y), self.raw_iv(x)
            if ry and self.diff_le(a, x, c + ry[0], depth + 1):
                return True
            if rx and self.diff_le(a, y, c + rx[0], depth + 1):
                return True
        if da and da[0] == "sub":
            # (x - y) - b <= c  <=  x - b <= c + lo(y)
            x, y = da[1], da[2]
            ry = self.raw_iv(y)
            if ry and self.diff_le(x, b, c + ry[0], depth + 1):
                return True
        if depth < 3 and self.facts:       # up to two intermediate atoms (a -> m1 -> m2 -> b)
            for m, c1 in self.fidx()[1].get(a, ()):
                c1 = self.facts.get((a, m), c1)
                if m != b and self.diff_le(m, b, c - c1, depth + 2):
                    return True
        return False

    # -- boolean refinement ---------------------------------------------------
    def best_diff(self, a, b, depth=0):
        """smallest known c with a - b <= c (INF when nothing is known)"""
        if a == b:
            return 0
        best = INF
        ra, rb = self.get_iv(a), self.get_iv(b)
        if ra and rb:
            best = ra[1] - rb[0]
        f = self.facts.get((a, b))
        if f is not None and f < best:
            best = f
        if depth < 3:
            da, db = G.df.get(a), G.df.get(b)
            if da and da[0] == "addc":
                v = self.best_diff(da[1], b, depth + 1) + da[2]
                if v < best:
                    best = v
            if db and db[0] == "addc":
                v = self.best_diff(a, db[1], depth + 1) - db[2]
                if v < best:
                    best = v
        return best

    def refine_bool(self, a, truth, depth=0):
        r = self.raw_iv(a)
        if r is None:
            return True
        want = (1, 1) if truth else (0, 0)
        if r == want:
            return self._backprop(a, want[0], want[1], depth) if depth == 0 else True
        if r[0] > want[0] or r[1] < want[1]:
            return False
        self.iv[a] = want
        return self._backprop(a, want[0], want[1], depth)

    def refine_cmp(self, op, a, b, truth, depth=0):
        neg = {"Lt": "Ge", "Le": "Gt", "Gt": "Le", "Ge": "Lt", "Eq": "Ne", "Ne": "Eq"}
        if not truth:
            op = neg[op]
        ra, rb = self.raw_iv(a), self.raw_iv(b)
        if ra is None or rb is None:
            return True
        if op == "Lt":
            return self.add_fact(a, b, -1)
        if op == "Le":
            return self.add_fact(a, b, 0)
        if op == "Gt":
            return self.add_fact(b, a, -1)
        if op == "Ge":
            return self.add_fact(b, a, 0)
        if op == "Eq":
            return self.add_fact(a, b, 0) and self.add_fact(b, a, 0)
        if op == "Ne":
            al, ah = ra
            bl, bh = rb
            if bl == bh:
                if al == bl:
                    al += 1
                if ah == bl:
                    ah -= 1
                if al > ah:
                    return False
                if not self.set_iv_d(a, al, ah, depth):
                    return False
            if al == ah:
                if bl == al:
                    bl += 1
                if bh == al:
                    bh -= 1
                if bl > bh:
                    return False
                if not self.set_iv_d(b, bl, bh, depth):
                    return False
            return True
        return True


# ---------------------------------------------------------------------------
# join / widening
# ---------------------------------------------------------------------------
def join_objs(p1, p2, s1, s2, fresh):
    """join two object payloads; returns payload or None"""
    if p1 == p2:
        return p1
    if p1[0] != p2[0] or len(p1) != len(p2):
        return None
    out = [p1[0]]
    for x, y in zip(p1[1:], p2[1:]):
        if x == y:
            out.append(x)
        elif is_int(x) and is_int(y):
            out.append(fresh(x, y))
        elif isinstance(x, str) and isinstance(y, str):
            out.append(None)          # flag unknown
        elif x is None or y is None:
            out.append(None)
        else:
            # nested tuples are descriptors (regions, location keys) made of raw integers: equal or nothing
            return None
    return tuple(out)


def join_states(s1, s2, widen_with=None, thresholds=None):
    """least upper bound (with optional widening against `widen_with`)"""
    n = St()
    memo = {}

    def fresh(a, b):
        k = (a, b)
        r = memo.get(k)
        if r is not None:
            return r
        ia, ib = s1.get_iv(a), s2.get_iv(b)
        lo, hi = min(ia[0], ib[0]), max(ia[1], ib[1])
        r = new_int(lo, hi)
        memo[k] = r
        return r

    for key, a in s1.env.items():
        b = s2.env.get(key)
        if b is None:
            continue
        n.env[key] = _join_atom(a, b, s1, s2, n, fresh)
    for key, a in s1.ghost.items():
        b = s2.ghost.get(key)
        if b is None:
            continue
        n.ghost[key] = _join_atom(a, b, s1, s2, n, fresh)
    # difference bounds between changed integer cells and the ghost loop counters (pointwise max = DBM join);
    # this is what keeps `count <= iterations + c` for counters under assumption A1
    for gk, g1 in s1.ghost.items():
        g2 = s2.ghost.get(gk)
        if g2 is None or not (is_int(g1) and is_int(g2)):
            continue
        ng = n.ghost.get(gk)
        if ng is None or not is_int(ng):
            continue
        for key, a in s1.env.items():
            b = s2.env.get(key)
            if b is None or a == b or not (is_int(a) and is_int(b)):
                continue
            na = n.env.get(key)
            if na is None or na == ng or not is_int(na):
                continue
            c = max(s1.best_diff(a, g1), s2.best_diff(b, g2))
            if c < (1 << 64):
                ia, ig = n.raw_iv(na), n.raw_iv(ng)
                if c < ia[1] - ig[0]:
                    old = n.facts.get((na, ng))
                    if old is None or c < old:
                        n.facts[(na, ng)] = c
    # difference bounds between changed integer cells and the lengths of slices held by cells of the same frame
    # (keeps `index <= len` across a scanning loop even when both states only know it through intervals)
    for fr_id, fd in s1.env.f.items():
        fd2 = s2.env.f.get(fr_id)
        if not fd2:
            continue
        lens = []
        for key, p in fd.items():
            if type(p) is int and p in G.ptr and G.ptr[p][0] == "slice" and fd2.get(key) == p:
                ln = G.ptr[p][3]
                if is_int(ln):
                    lens.append(ln)
        if not lens:
            continue
        for key, a in fd.items():
            b = fd2.get(key)
            if b is None or a == b or not (is_int(a) and is_int(b)):
                continue
            na = n.env.get(key)
            if na is None or not is_int(na):
                continue
            for ln in lens:
                if na == ln:
                    continue
                c = max(s1.best_diff(a, ln), s2.best_diff(b, ln))
                if c <= 0:
                    old = n.facts.get((na, ln))
                    if old is None or c < old:
                        n.facts[(na, ln)] = c
    # structural candidates: a sibling integer field bounds the ghost "initialised prefix" of an array cell
    for key, i1 in s1.env.items():
        if key[-1] != ("g", "init"):
            continue
        i2 = s2.env.get(key)
        ni = n.env.get(key)
        if i2 is None or ni is None or not (is_int(i1) and is_int(i2) and is_int(ni)):
            continue
        pref = key[:-2]
        m = len(pref)
        for k2, a in s1.env.items():
            if len(k2) == m + 1 and k2[:m] == pref and k2 != key[:-1] and is_int(a):
                b = s2.env.get(k2)
                nb = n.env.get(k2)
                if b is None or nb is None or not (is_int(b) and is_int(nb)) or nb == ni:
                    continue
                if s1.diff_le(a, i1, 0) and s2.diff_le(b, i2, 0):
                    n.facts.setdefault((nb, ni), 0)
                    if n.facts[(nb, ni)] > 0:
                        n.facts[(nb, ni)] = 0
        # heap vector (Vec cell group): length <= initialised prefix <= capacity
        P = key[:-1]
        for sib, below in ((P + (("g", "vlen"),), True), (P + (("g", "vcap"),), False)):
            a, b, nb = s1.env.get(sib), s2.env.get(sib), n.env.get(sib)
            if not (is_int(a) and is_int(b) and is_int(nb)) or nb == ni:
                continue
            if below and s1.diff_le(a, i1, 0) and s2.diff_le(b, i2, 0):
                if n.facts.get((nb, ni), 1) > 0:
                    n.facts[(nb, ni)] = 0
            if (not below) and s1.diff_le(i1, a, 0) and s2.diff_le(i2, b, 0):
                if n.facts.get((ni, nb), 1) > 0:
                    n.facts[(ni, nb)] = 0
    # facts, Houdini-style: a candidate is a fact of either state over atoms stored in cells; it survives if
    # the other state entails it (intervals, facts, definitions)
    def _cell(st, key):
        if len(key) == 3 and key[1] == "@":
            # pseudo-cell: integer component (offset / length) of the pointer held by cell key[0]
            p = st.env.get(key[0])
            d = G.ptr.get(p) if type(p) is int else None
            if d is None or key[2] >= len(d):
                return None
            return d[key[2]]
        return st.env.get(key) if key in st.env else st.ghost.get(key)

    def cellof(st, key):
        return _cell(st, key)

    def ncell(key):
        return _cell(n, key)

    for sa, sb in ((s1, s2), (s2, s1)):
        if not sa.facts:
            continue
        # atoms held by cells, and atoms a cell's value is a constant offset from (cell = atom + k)
        rev = {}
        for key, a in itertools.chain(sa.env.items(), sa.ghost.items()):
            if type(a) is int and a in G.base:
                rev.setdefault(a, []).append((key, 0))
                d = G.df.get(a)
                if d and d[0] == "addc":
                    rev.setdefault(d[1], []).append((key, d[2]))
            elif type(a) is int and a in G.ptr and key[0] != "iter":
                for idx, x in enumerate(G.ptr[a]):
                    if idx and type(x) is int and x in G.base:
                        rev.setdefault(x, []).append(((key, "@", idx), 0))
        for (a, b), c in sa.facts.items():
            ka, kb = rev.get(a), rev.get(b)
            if ka is None and kb is None:
                continue        # facts between atoms no cell holds any more are garbage-collected at joins
            for k1, o1 in (ka or [(None, 0)])[:3]:
                for k2, o2 in (kb or [(None, 0)])[:3]:
                    # cell1 = a + o1, cell2 = b + o2, a - b <= c   =>   cell1 - cell2 <= c + o1 - o2
                    cc = c + o1 - o2
                    a2 = cellof(sb, k1) if k1 is not None else a
                    b2 = cellof(sb, k2) if k2 is not None else b
                    a1 = cellof(sa, k1) if k1 is not None else a
                    b1 = cellof(sa, k2) if k2 is not None else b
                    if a2 is None or b2 is None or not is_int(a2) or not is_int(b2):
                        continue
                    if sb.diff_le(a2, b2, cc) and sa.diff_le(a1, b1, cc):
                        na = ncell(k1) if k1 is not None else a
                        nb = ncell(k2) if k2 is not None else b
                        if na is not None and nb is not None and na != nb and is_int(na) and is_int(nb):
                            old = n.facts.get((na, nb))
                            if old is None or cc < old:
                                n.facts[(na, nb)] = cc
    return n


def _root_off(a):
    d = G.df.get(a)
    if d:
        if d[0] == "addc":
            return d[1], d[2]
        if d[0] == "const":
            return None, d[1]
    return a, 0


def _off_from(b, a):
    """k if b = a + k syntactically, else None"""
    rb, ob = _root_off(b)
    ra, oa = _root_off(a)
    if rb == ra:
        return ob - oa
    return None


def _join_atom(a, b, s1, s2, n, fresh):
    if a == b:
        ia, ib = s1.iv.get(a), s2.iv.get(a)
        if ia is not None and ib is not None:
            n.iv[a] = (min(ia[0], ib[0]), max(ia[1], ib[1]))
        return a
    if is_int(a) and is_int(b):
        return fresh(a, b)
    if a in G.ptr and b in G.ptr:
        pa, pb = G.ptr[a], G.ptr[b]
        if pa == pb:
            return a
        if pa[0] == pb[0] == "slice" and pa[1] == pb[1]:
            off = pa[2] if pa[2] == pb[2] else (fresh(pa[2], pb[2]) if is_int(pa[2]) and is_int(pb[2]) else None)
            ln = pa[3] if pa[3] == pb[3] else fresh(pa[3], pb[3])
            return new_ptr(("slice", pa[1], off, ln))
        if pa[0] == pb[0] == "buf" and pa[1] == pb[1]:
            return new_ptr(("buf", pa[1], fresh(pa[2], pb[2])))
        if pa[0] == pb[0] == "val" and pa[2:] == pb[2:]:
            x, y = pa[1], pb[1]
            if is_int(x) and is_int(y):
                return new_ptr(("val", fresh(x, y)) + tuple(pa[2:]))
            return new_ptr(("val", None) + tuple(pa[2:]))
        return new_top()
    if a in G.obj and b in G.obj:
        j = join_objs(G.obj[a], G.obj[b], s1, s2, fresh)
        if j is None:
            return new_top()
        return new_obj(j)
    return new_top()


WHY = [None]


def state_leq(s_new, s_old):
    """cell-wise inclusion: is s_new below s_old?  (atoms compared by abstract value)"""
    for key, ao in itertools.chain(s_old.env.items(), s_old.ghost.items()):
        an = s_new.env.get(key) if key in s_old.env else s_new.ghost.get(key)
        if an is None:
            WHY[0] = ("missing", key)
            return False
        if not _atom_leq(an, ao, s_new, s_old):
            WHY[0] = ("cell", key, s_new.get_iv(an) if is_int(an) else G.obj.get(an) or G.ptr.get(an), s_old.get_iv(ao) if is_int(ao) else G.obj.get(ao) or G.ptr.get(ao))
            return False
    # facts of old must be entailed by new (over the corresponding cells)
    if s_old.facts:
        rev = {}
        for key, a in itertools.chain(s_old.env.items(), s_old.ghost.items()):
            rev.setdefault(a, []).append(key)
        for (a, b), c in s_old.facts.items():
            ka, kb = rev.get(a), rev.get(b)
            an = (s_new.env.get(ka[0]) if ka[0] in s_new.env else s_new.ghost.get(ka[0])) if ka else a
            bn = (s_new.env.get(kb[0]) if kb[0] in s_new.env else s_new.ghost.get(kb[0])) if kb else b
            if an is None or bn is None or not is_int(an) or not is_int(bn):
                WHY[0] = ("fact-cells", ka, kb)
                return False
            if not s_new.diff_le(an, bn, c):
                WHY[0] = ("fact", ka, kb, c, s_new.get_iv(an), s_new.get_iv(bn))
                return False
    return True


def _atom_leq(an, ao, sn, so):
    if is_int(ao):
        if not is_int(an):
            return False
        i1, i2 = sn.get_iv(an), so.get_iv(ao)
        return i2[0] <= i1[0] and i1[1] <= i2[1]
    if an == ao:
        return True
    if ao in G.ptr:
        if an not in G.ptr:
            return False
        pn, po = G.ptr[an], G.ptr[ao]
        if pn == po:
            return True
        if pn[0] != po[0] or len(pn) != len(po):
            return False
        for x, y in zip(pn[1:], po[1:]):
            if x == y:
                continue
            if is_int(x) and is_int(y):
                if not _atom_leq(x, y, sn, so):
                    return False
            elif y is None:
                continue
            else:
                return False
        return True
    if ao in G.obj:
        if an not in G.obj:
            return False
        return _obj_leq(G.obj[an], G.obj[ao], sn, so)
    # old is top
    return True


def _obj_leq(pn, po, sn, so):
    if pn == po:
        return True
    if pn[0] != po[0] or len(pn) != len(po):
        return False
    for x, y in zip(pn[1:], po[1:]):
        if x == y:
            continue
        if y is None:
            continue
        if is_int(x) and is_int(y):
            if not _atom_leq(x, y, sn, so):
                return False
        else:
            return False
    return True


LEVEL = [0]


def widen_state(old, new, thresholds, level=0):
    """new is assumed >= old (a join of old with something).  Cells whose interval grew are rebound to a
    fresh atom whose range is pushed to the next threshold (level 0) or to a type-like bound (level 2).
    Atoms are never mutated: a substitution is applied to cells, payloads and facts of `new`."""
    LEVEL[0] = level
    sub = {}
    for key, an in list(itertools.chain(new.env.items(), new.ghost.items())):
        ao = old.env.get(key) if key in old.env else old.ghost.get(key)
        if ao is None:
            continue
        _widen_collect(an, ao, new, old, thresholds, sub)
    # facts: a bound that grew with respect to the old head is dropped (widening on difference bounds)
    if new.facts:
        revn = {}
        for key, a in itertools.chain(new.env.items(), new.ghost.items()):
            if type(a) is int and a in G.base:
                revn.setdefault(a, key)
        for (x, y), c in list(new.facts.items()):
            kx, ky = revn.get(x), revn.get(y)
            if kx is None and ky is None:
                continue
            # an atom that no cell holds is the same atom at the old head (atoms are immutable)
            xo = (old.env.get(kx) if kx in old.env else old.ghost.get(kx)) if kx is not None else x
            yo = (old.env.get(ky) if ky in old.env else old.ghost.get(ky)) if ky is not None else y
            ky = ky if ky is not None else ("?",)
            if xo is None or yo is None or not (is_int(xo) and is_int(yo)):
                continue
            co = old.facts.get((xo, yo))
            if co is None and ky[-1] == ("g", "init") and c == 0 and xo == yo:
                co = 0      # structural candidate (field <= initialised prefix): fixed finite candidate set
            if co is None or co < c:
                # only bounds the old head already carried explicitly (and that did not grow) survive widening:
                # the set of facts at a loop head decreases monotonically from the second join on
                del new.facts[(x, y)]
    if not sub:
        return new

    def sb(a):
        if type(a) is int:
            if a in sub:
                return sub[a]
            if a in G.ptr:
                d = G.ptr[a]
                nd = tuple(sb(x) if type(x) is int and x in sub else x for x in d)
                if nd != d:
                    return new_ptr(nd)
            elif a in G.obj:
                o = G.obj[a]
                no = _sub_payload(o, sub)
                if no is not o:
                    return new_obj(no)
        return a
    for key, a in list(new.env.items()):
        b = sb(a)
        if b != a:
            new.env[key] = b
    for key, a in list(new.ghost.items()):
        b = sb(a)
        if b != a:
            new.ghost[key] = b
    if new.facts:
        nf = {}
        for (a, b), c in new.facts.items():
            a2, b2 = sub.get(a, a), sub.get(b, b)
            old_c = nf.get((a2, b2))
            if a2 != b2 and (old_c is None or c < old_c):
                nf[(a2, b2)] = c
        new.facts = nf
    for a in sub:
        new.iv.pop(a, None)
    return new


def _sub_payload(o, sub):
    ch = False
    out = []
    for x in o:
        if type(x) is int and x in sub:
            out.append(sub[x])
            ch = True
        else:
            out.append(x)       # nested tuples are descriptors of raw integers, never atoms
    return tuple(out) if ch else o


def _widen_collect(an, ao, new, old, thresholds, sub):
    if an == ao or an in sub:
        return
    if is_int(an) and is_int(ao):
        i_n, i_o = new.get_iv(an), old.get_iv(ao)
        lo, hi = i_n
        ch = False
        if i_n[0] < i_o[0]:
            lo = _next_down(thresholds, i_n[0])
            ch = True
        if i_n[1] > i_o[1]:
            hi = _next_up(thresholds, i_n[1])
            ch = True
        if ch:
            sub[an] = new_int(lo, hi)
        return
    if an in G.ptr and ao in G.ptr:
        pn, po = G.ptr[an], G.ptr[ao]
        if pn[0] == po[0] and len(pn) == len(po):
            for x, y in zip(pn[1:], po[1:]):
                if is_int(x) and is_int(y) and x != y:
                    _widen_collect(x, y, new, old, thresholds, sub)
        return
    if an in G.obj and ao in G.obj:
        _widen_collect_obj(G.obj[an], G.obj[ao], new, old, thresholds, sub)


def _widen_collect_obj(pn, po, new, old, thresholds, sub):
    if pn[0] != po[0] or len(pn) != len(po):
        return
    for x, y in zip(pn[1:], po[1:]):
        if is_int(x) and is_int(y) and x != y:
            _widen_collect(x, y, new, old, thresholds, sub)


MAJOR = sorted(set([0, 1, -1] + [(1 << b) - 1 for b in (8, 16, 32, 64, 128)] + [-(1 << b) for b in (7, 15, 31, 63, 127)]))


def _next_up(thresholds, v):
    import bisect
    lvl = LEVEL[0]
    if lvl >= 2:
        j = bisect.bisect_left(MAJOR, v)
        return MAJOR[j] if j < len(MAJOR) else INF
    j = bisect.bisect_left(thresholds, v)
    return thresholds[j] if j < len(thresholds) else INF


def _next_down(thresholds, v):
    import bisect
    lvl = LEVEL[0]
    if lvl >= 2:
        j = bisect.bisect_right(MAJOR, v) - 1
        return MAJOR[j] if j >= 0 else -INF
    j = bisect.bisect_right(thresholds, v) - 1
    return thresholds[j] if j >= 0 else -INF


