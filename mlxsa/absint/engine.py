"""E4: abstract interpreter over the exported monomorphic MIR."""
import collections
import itertools
import sys

from .domain import (G, St, INF, trange, new_int, const_int, new_ptr, new_obj, new_top, is_int,
                     join_states, state_leq, widen_state)
from ..effects import nz, is_panic_entry

CRATES = ("minimal_lexical", "roots")
A1_BOUND = 1 << 62          # assumption A1: every loop / iterator yields fewer than 2^62 items
MAX_BLOCK_STATES = 12
MAX_EXIT_STATES = 5
MAX_PARTS = 4
MAX_ITERS = 60
MAX_DEPTH = 40


import os
DEBUG = int(os.environ.get("MLX_DEBUG", "0"))


def dump_state(st, fr):
    items = []
    for key, a in sorted(st.env.items(), key=repr):
        if key[0] != fr:
            continue
        if is_int(a):
            items.append("%s=%s" % (".".join(str(x) for x in key[1:]), st.get_iv(a)))
        elif a in G.obj:
            o = G.obj[a]
            items.append("%s=%s" % (key[1:], tuple(st.get_iv(x) if is_int(x) else x for x in o)))
    for key, a in st.ghost.items():
        if is_int(a):
            items.append("ghost%s=%s" % (key, st.get_iv(a)))
    return " ".join(items) + " facts=%d" % len(st.facts)


class Agg:
    __slots__ = ("key",)

    def __init__(self, key):
        self.key = key


class Fields:
    __slots__ = ("d",)

    def __init__(self, d):
        self.d = d


class Ob:
    __slots__ = ("key", "kind", "fn", "snip", "loc", "proven", "failed", "detail", "visits", "fail_callers")

    def __init__(self, key, kind, fn, snip, loc):
        self.key = key
        self.kind = kind
        self.fn = fn
        self.snip = snip
        self.loc = loc
        self.proven = 0
        self.failed = 0
        self.detail = ""
        self.visits = 0
        self.fail_callers = set()       # library functions from which the failing visits were reached (immediate caller of the site's function)


class Ctx:
    def __init__(self, facts, model, elem_ranges=None):
        self.facts = facts
        self.mono = facts.mono
        self.mode = facts.mode          # 'dbg' | 'rel'
        self.model = model              # 'valid' | 'arbitrary'
        self.obs = {}
        self.record = True
        self.callstack = []             # [(inst, span)]
        self.unmodelled = collections.Counter()
        self.cfgs = {}
        self.use_contracts = True
        self.frontend = False
        self.keep_root_paths = False     # post-condition runs on small entry functions: one exit state per path
        self.lib_calls = []
        self._fnthr = {}
        self.depth = 0
        self.thresholds = self._thresholds()
        self.insts_visited = set()
        self.paths_ended_in_panic = 0
        self.notes = collections.Counter()

    def _thresholds(self):
        t = set([0, 1, -1, 2, 62, 63, 64, 65, 127, 128, 255, 256])
        for b in (7, 8, 15, 16, 31, 32, 62, 63, 64, 127, 128):
            t.add(1 << b)
            t.add((1 << b) - 1)
            t.add(-(1 << b))
        for k in range(1, 5):
            t.add(k * A1_BOUND)
            t.add(k * A1_BOUND + 64)

        def scan(o):
            if isinstance(o, dict):
                c = o.get("const")
                if c is not None and "v" in c and c["ty"].get("k") in ("int", "bool"):
                    v = int(c["v"])
                    if c["ty"].get("signed") and v >= 1 << (c["ty"]["bits"] - 1):
                        v -= 1 << c["ty"]["bits"]
                    if abs(v) < (1 << 70):
                        t.update((v - 1, v, v + 1))
                else:
                    for x in o.values():
                        scan(x)
            elif isinstance(o, list):
                for x in o:
                    scan(x)
        for m in self.mono.values():
            if m["krate"] in CRATES:
                scan(m.get("blocks", []))
        for v in self.facts.consts.values():
            if isinstance(v, str):
                try:
                    x = int(v)
                    t.update((x - 1, x, x + 1))
                except ValueError:
                    pass
        return sorted(t)

    # -- obligations ------------------------------------------------------------
    def site(self, inst, span):
        """(fn, snippet, loc) of the innermost library/front-end level site"""
        if inst["krate"] in CRATES:
            return inst, span
        for i2, sp in reversed(self.callstack):
            if i2["krate"] in CRATES:
                return i2, sp
        return inst, span

    def oblige(self, kind, ok, inst, span, detail=""):
        if not self.record:
            return
        fn_level = span is not None and span is inst.get("span")      # an obligation about the function as a whole (post-condition, INV at exit)
        sinst, sspan = self.site(inst, span or {})
        tag = ""
        for t in sinst.get("targs", []):
            if t.get("k") == "float":
                tag = "<f%d>" % t["bits"]
                break
        snip = sspan.get("call") or sspan.get("snip") or ""
        if sspan.get("call") and sspan.get("snip") and sspan["snip"] not in sspan["call"]:
            snip = sspan["call"] + " >> " + sspan["snip"]
        if fn_level:
            snip = snip.split("{")[0].strip()       # keyed by the signature only: a rewrite of the body does not change the key
        via = "" if sinst is inst else " via " + nz(inst["path"])
        key = "%s%s | %s%s | %s" % (sinst["dpath"], tag, kind, via, snip[:140])
        o = self.obs.get(key)
        if o is None:
            o = self.obs[key] = Ob(key, kind, sinst["dpath"] + tag, snip[:140], sspan.get("loc", ""))
        o.visits += 1
        if DEBUG and not ok:
            print("%s   !! %s :: %s" % ("  " * self.depth, key[:160], detail), file=sys.stderr)
        if ok:
            o.proven += 1
        else:
            o.failed += 1
            caller = None
            if sinst is inst:
                caller = self.callstack[-1][0] if self.callstack else None
            else:
                for idx in range(len(self.callstack) - 1, -1, -1):
                    if self.callstack[idx][0] is sinst:
                        caller = self.callstack[idx - 1][0] if idx > 0 else None
                        break
            o.fail_callers.add(caller["dpath"] if caller is not None else "")
            if not o.detail:
                o.detail = detail
                if self.callstack:
                    o.detail += " | via " + " > ".join(i["dpath"].split("::")[-1] for i, _ in self.callstack[-6:])

    def fn_thresholds(self, inst):
        """comparison constants of the function and of its callees up to depth 2, plus type-like bounds"""
        c = self._fnthr.get(inst["id"])
        if c is not None:
            return c
        from .domain import MAJOR
        acc = set(MAJOR)

        def consts_of(m):
            out = set()

            def cv(o):
                c = o.get("const") if isinstance(o, dict) else None
                if c is not None and "v" in c and c["ty"].get("k") == "int":
                    v = int(c["v"])
                    if c["ty"].get("signed") and v >= 1 << (c["ty"]["bits"] - 1):
                        v -= 1 << c["ty"]["bits"]
                    out.update((v - 1, v, v + 1))
            for b in m.get("blocks", []):
                for s in b["s"]:
                    # equality tests cannot be recovered by narrowing: their constants are the widening thresholds
                    if s["k"] == "assign" and s["rv"]["rv"] == "bin" and s["rv"]["op"] in ("Eq", "Ne"):
                        cv(s["rv"]["a"])
                        cv(s["rv"]["b"])
                t = b["t"]
                if t["k"] == "switch":
                    for v, _ in t["arms"]:
                        v = int(v)
                        if v < (1 << 63):
                            out.update((v - 1, v, v + 1))
            return out
        seen = set()
        frontier = [inst["id"]]
        for depth in range(3):
            nxt = []
            for i in frontier:
                if i in seen or i not in self.mono:
                    continue
                seen.add(i)
                m = self.mono[i]
                acc |= consts_of(m)
                for b in m.get("blocks", []):
                    t = b["t"]
                    if t["k"] == "call" and t.get("callee") is not None:
                        nxt.append(t["callee"])
            frontier = nxt
        c = self._fnthr[inst["id"]] = sorted(acc)
        return c

    def cfg(self, inst):
        c = self.cfgs.get(inst["id"])
        if c is None:
            c = self.cfgs[inst["id"]] = CFG(inst)
        return c


class CFG:
    def __init__(self, inst):
        blocks = inst["blocks"]
        n = len(blocks)
        self.succ = [[] for _ in range(n)]
        for i, b in enumerate(blocks):
            t = b["t"]
            k = t["k"]
            if k == "goto":
                self.succ[i] = [t["t"]]
            elif k == "switch":
                self.succ[i] = [a[1] for a in t["arms"]] + [t["otherwise"]]
            elif k in ("call", "assert", "drop"):
                if t.get("t") is not None:
                    self.succ[i] = [t["t"]]
        # DFS for RPO and back edges
        order = []
        state = [0] * n
        self.back = set()
        stack = [(0, iter(self.succ[0]))]
        state[0] = 1
        while stack:
            v, it = stack[-1]
            adv = False
            for w in it:
                if state[w] == 0:
                    state[w] = 1
                    stack.append((w, iter(self.succ[w])))
                    adv = True
                    break
                elif state[w] == 1:
                    self.back.add((v, w))
            if not adv:
                state[v] = 2
                order.append(v)
                stack.pop()
        self.rpo = list(reversed(order))
        self.heads = set(w for _, w in self.back)
        self.preds = [[] for _ in range(n)]
        for v in range(n):
            for w in self.succ[v]:
                self.preds[w].append(v)
        # natural loop bodies (reducible CFGs: MIR built from structured source)
        self.body = {}
        for (v, h) in self.back:
            b = self.body.setdefault(h, set([h]))
            work = [v]
            while work:
                x = work.pop()
                if x in b:
                    continue
                b.add(x)
                work.extend(self.preds[x])
        reach = set(self.rpo)
        for h in self.body:
            self.body[h] &= reach
        self.wto = self._wto(self.rpo, None)

    def _wto(self, nodes, inside):
        """weak topological order: blocks in RPO, each loop grouped at its head: [b, ('loop', h, [...]), ...]"""
        out = []
        done = set()
        for b in nodes:
            if b in done:
                continue
            if b in self.body and b != inside:
                body = self.body[b]
                inner = [x for x in nodes if x in body and x != b]
                out.append(("loop", b, self._wto(inner, b)))
                done |= body
            else:
                out.append(b)
                done.add(b)
        return out


# ---------------------------------------------------------------------------
# values / memory
# ---------------------------------------------------------------------------
def fresh_of_type(ty):
    r = trange(ty)
    if r is not None:
        return new_int(r[0], r[1])
    if ty.get("k") in ("ref", "ptr"):
        return new_top()
    if ty.get("k") == "float":
        return new_top()
    return None


def write(st, key, val):
    n = len(key)
    fd = st.env.f.get(key[0])
    if fd:
        dead = [k for k in fd if len(k) >= n and k[:n] == key]
        for k in dead:
            del fd[k]
    if val is None:
        return
    if isinstance(val, Agg):
        src = val.key
        m = len(src)
        if src == key:
            return
        for k, a in list(st.env.frame(src[0]).items()):
            if len(k) >= m and k[:m] == src:
                st.env[key + k[m:]] = a
    elif isinstance(val, Fields):
        for path, a in val.d.items():
            if isinstance(a, (Agg, Fields)):
                write(st, key + path, a)
            elif a is not None:
                st.env[key + path] = a
    else:
        st.env[key] = val


def snapshot(st, val):
    """turn an Agg reference into Fields (so that it survives deletion of its source)"""
    if isinstance(val, Agg):
        src = val.key
        m = len(src)
        return Fields({k[m:]: a for k, a in st.env.frame(src[0]).items() if len(k) >= m and k[:m] == src})
    return val


def has_sub(st, key):
    n = len(key)
    for k in st.env.frame(key[0]):
        if len(k) > n and k[:n] == key:
            return True
    return False


class Interp:
    def __init__(self, ctx):
        self.ctx = ctx
        from . import summaries, modular
        self._static_hulls = {}
        self._heavy = {}
        self._scaled_cache = {}
        self.summ = summaries.Summaries(self)
        self.mod = modular.Modular(self)

    # -- places -------------------------------------------------------------
    def lv(self, st, fr, inst, place, span=None, for_write=False):
        cur = ("key", (fr, place["l"]))
        lty = inst["locals"][place["l"]]
        first = True
        for e in place["p"]:
            if e == "deref":
                a = self.load_lv(st, cur, None)
                raw = first and lty.get("k") == "ptr"
                d = G.ptr.get(a) if isinstance(a, int) else None
                if d is None:
                    cur = ("unknown", raw)
                elif d[0] == "loc":
                    cur = ("key", d[1])
                elif d[0] == "val":
                    cur = ("valcell", d[1])
                elif d[0] == "buf":
                    cur = ("bufelem", d[1], d[2], raw)
                elif d[0] == "slice":
                    cur = ("slicewhole", a)
                elif d[0] == "static":
                    cur = ("static", d[1])
                elif d[0] == "staticelem":
                    cur = ("staticelem", d[1], None)        # some element of an immutable static table
                else:
                    cur = ("unknown", raw)
            elif "f" in e:
                if cur[0] == "key":
                    cur = ("key", cur[1] + (("f", e["f"]),))
                elif cur[0] == "staticelem":
                    cur = cur + (e["f"],)
                else:
                    cur = ("unknown", False)
            elif "variant" in e:
                if cur[0] == "key":
                    cur = ("key", cur[1] + (("v", e["variant"]),))
                else:
                    cur = ("unknown", False)
            elif "idx" in e:
                ia = st.env.get((fr, e["idx"]))
                if cur[0] == "slicewhole":
                    cur = ("elem", G.ptr[cur[1]][1], ia)
                elif cur[0] == "static":
                    cur = ("staticelem", cur[1], ia)
                elif cur[0] == "key":
                    cur = ("arrelem", cur[1], ia)
                else:
                    cur = ("unknown", False)
            elif "cidx" in e:
                if cur[0] == "slicewhole":
                    cur = ("elem", G.ptr[cur[1]][1], None)
                else:
                    cur = ("unknown", False)
            elif "sub" in e:
                # slice pattern `[a, rest @ .., z]`: MIR only reaches this projection after matching on the length
                d = G.ptr.get(cur[1]) if cur[0] == "slicewhole" else None
                if d and d[0] == "slice" and is_int(d[3]) and (d[2] is None or is_int(d[2])):
                    frm, to = e["sub"]
                    off = d[2] if d[2] is not None else const_int(0)
                    noff = self.addc(st, off, frm)
                    if e.get("from_end"):
                        st.set_iv(d[3], max(st.get_iv(d[3])[0], frm + to), st.get_iv(d[3])[1])
                        nl = self.addc(st, d[3], -(frm + to))
                    else:
                        nl = const_int(max(to - frm, 0))
                    cur = ("slicewhole", new_ptr(("slice", d[1], noff, nl)))
                else:
                    cur = ("unknown", False)
            else:
                cur = ("unknown", False)
            first = False
        return cur

    def load_lv(self, st, cur, ty):
        k = cur[0]
        if k == "key":
            key = cur[1]
            a = st.env.get(key)
            if a is not None:
                if a in G.obj and G.obj[a][0] in ("array", "vec"):
                    return Agg(key)        # carries its ghost "initialised prefix" sub-cell
                return a
            if has_sub(st, key):
                return Agg(key)
            if ty is not None:
                v = fresh_of_type(ty)
                if v is not None:
                    st.env[key] = v
                    return v
                return Agg(key)
            return None
        if k == "valcell":
            if cur[1] is not None:
                return cur[1]
            return fresh_of_type(ty) if ty else None
        if k == "slicewhole":
            return cur[1]
        if k in ("elem", "bufelem"):
            region = cur[1]
            v = self.region_elem(region, ty)
            if region[0] == "ext" and is_int(v) and ty is not None and ty.get("k") == "uint" and ty.get("bits") == 8:
                st.ghost[("last_input_byte",)] = v      # the most recently read input byte on this path (refined by later tests on it)
            return v
        if k == "staticelem":
            v = self.static_elem(cur[1], ty if len(cur) == 3 else None)
            for fi in cur[3:]:
                if isinstance(v, Fields):
                    sub = {p[1:]: a for p, a in v.d.items() if p and p[0] == ("f", fi)}
                    v = sub.get(()) if list(sub) == [()] else (Fields(sub) if sub else None)
                else:
                    v = None
            if v is None and ty is not None:
                v = fresh_of_type(ty)
            return v
        if k == "arrelem":
            return fresh_of_type(ty) if ty else None
        return fresh_of_type(ty) if ty else None

    def region_elem(self, region, ty):
        if region[0] == "ext":
            m = region[2]
            if m is not None:
                return new_int(m[0], m[1])
        if region[0] == "const":
            h = region[3]
            if h is not None and ty is not None and trange(ty) is not None:
                return new_int(h[0], h[1])
        if region[0] == "static":
            return self.static_elem(region[1], ty)
        return fresh_of_type(ty) if ty else None

    def static_elem(self, path, ty):
        """element of an immutable static table: hull of every entry, per tuple field"""
        h = self._static_hulls.get(path)
        if h is None:
            v = self.ctx.facts.consts.get(path)
            if v is None:
                for k, vv in self.ctx.facts.consts.items():
                    if k.endswith("::" + path.split("::")[-1]) or path.endswith(k):
                        v = vv
                        break
            h = False
            if isinstance(v, list) and v:
                if isinstance(v[0], str):
                    xs = [int(x) for x in v]
                    h = ("scalar", min(xs), max(xs))
                elif isinstance(v[0], list) and all(isinstance(x, str) for x in v[0]):
                    cols = list(zip(*[[int(x) for x in row] for row in v]))
                    h = ("tuple", [(min(c), max(c)) for c in cols])
            self._static_hulls[path] = h
        if h and h[0] == "scalar":
            return new_int(h[1], h[2])
        if h and h[0] == "tuple":
            return Fields({(("f", i),): new_int(lo, hi) for i, (lo, hi) in enumerate(h[1])})
        return fresh_of_type(ty) if ty else None

    def read_place(self, st, fr, inst, place, span=None):
        cur = self.lv(st, fr, inst, place, span)
        if cur[0] == "bufelem":
            self.raw_access(st, inst, span, cur, write=False)
        elif cur[0] == "unknown" and cur[1]:
            self.ctx.oblige("raw-deref-read", False, inst, span, "read through a raw pointer the engine cannot resolve")
        return self.load_lv(st, cur, place["ty"])

    def write_place(self, st, fr, inst, place, val, span=None):
        cur = self.lv(st, fr, inst, place, span, for_write=True)
        k = cur[0]
        if k == "key":
            write(st, cur[1], val)
        elif k == "bufelem":
            self.raw_access(st, inst, span, cur, write=True)
        elif k == "unknown" and cur[1]:
            self.ctx.oblige("raw-deref-write", False, inst, span, "write through a raw pointer the engine cannot resolve")
        # valcell / elem / arrelem: contents are not tracked
        if k != "key":
            st.ghost.pop(("pristine",), None)       # memory other than a tracked cell has been written on this path

    # -- raw memory -------------------------------------------------------------
    def region_cap(self, st, region):
        """static capacity of a region: an int, or for the buffer of a heap vector the lower bound of its capacity atom"""
        if region[0] == "loc":
            return region[2]
        if region[0] in ("const", "static"):
            return region[2]
        if region[0] == "heap":
            c = st.env.get(tuple(region[1]) + (("g", "vcap"),))
            return st.get_iv(c)[0] if is_int(c) else None
        return None

    def within_cap(self, st, region, end_atom, end_hi):
        """end <= capacity of the region (for a heap vector: either below the lower bound of the capacity or related to its atom)"""
        cap = self.region_cap(st, region)
        if cap is not None and end_hi <= cap:
            return True, cap
        if region[0] == "heap":
            c = st.env.get(tuple(region[1]) + (("g", "vcap"),))
            if is_int(c) and end_atom is not None and is_int(end_atom):
                if st.diff_le(end_atom, c, 0):
                    return True, "capacity atom %s" % (st.get_iv(c),)
                # end <= end + y <= capacity for a non-negative y (shl_limbs: `n + len <= capacity` guards offsets n and n + len)
                for (x, y), k in st.facts.items():
                    if y == c and k <= 0:
                        dx = G.df.get(x)
                        if dx and dx[0] == "add" and end_atom in (dx[1], dx[2]):
                            other = dx[2] if end_atom == dx[1] else dx[1]
                            if st.get_iv(other)[0] >= 0:
                                return True, "capacity atom %s via %s" % (st.get_iv(c), "sum bound")
            return False, ("capacity atom %s" % (st.get_iv(c),)) if is_int(c) else None
        return False, cap

    def _max_below_cap(self, st, region, m, a, other_ok):
        """m = max(a, b) of two prefix bounds of a heap buffer: if a <= capacity and b <= capacity (other_ok) then m <= capacity"""
        if region[0] != "heap" or not other_ok:
            return
        c = st.env.get(tuple(region[1]) + (("g", "vcap"),))
        if is_int(c) and is_int(a) and st.diff_le(a, c, 0):
            st.add_fact(m, c, 0)

    def buf_init_key(self, region):
        # ghost "initialised prefix" of an array cell lives in env as a pseudo-field, so it moves with the value
        return tuple(region[1]) + (("g", "init"),) if region[0] in ("loc", "heap") else None

    def raw_access(self, st, inst, span, cur, write, count=None):
        """element access through a raw pointer into a tracked buffer: offset (+count) within capacity;
        reads must be below the initialised prefix"""
        region, off = cur[1], cur[2]
        cap = self.region_cap(st, region)
        io = st.get_iv(off) if is_int(off) else None
        n_hi = 1
        cnt_atom = None
        if count is not None:
            cnt_atom = count
            ic = st.get_iv(count)
            n_hi = ic[1] if ic else INF
        ok = False
        detail = ""
        if cap is not None and io is not None:
            end_hi = self.sum_hi(st, off, cnt_atom) if cnt_atom is not None else io[1] + 1
            end_atom = self.sum_atom(st, off, cnt_atom if cnt_atom is not None else const_int(1))
            okc, capd = self.within_cap(st, region, end_atom, end_hi)
            ok = io[0] >= 0 and okc
            detail = "offset %s count<=%s end<=%s capacity %s" % (io, n_hi, end_hi, capd)
        else:
            detail = "untracked region %s" % (region[0],)
        self.ctx.oblige("raw-write-in-capacity" if write else "raw-read-in-capacity", ok, inst, span, detail)
        if write:
            st.ghost.pop(("pristine",), None)
        ik = self.buf_init_key(region)
        if ik is not None:
            init = st.env.get(ik)
            if write:
                # initialised prefix grows when the write starts at or below it; a write beyond the prefix is
                # remembered as one pending range and merged as soon as the prefix reaches its start
                # (shl_limbs: copy to [n, n+len) first, then zero-fill [0, n))
                pk_s, pk_e = ik[:-1] + (("g", "pstart"),), ik[:-1] + (("g", "pend"),)
                if init is not None and is_int(off):
                    end = self.sum_atom(st, off, cnt_atom if cnt_atom is not None else const_int(1))
                    if end is not None:
                        if st.diff_le(off, init, 0):
                            if st.diff_le(init, end, 0):
                                st.env[ik] = end
                            elif not st.diff_le(end, init, 0):
                                ii, ie = st.get_iv(init), st.get_iv(end)
                                m = new_int(max(ii[0], ie[0]), max(ii[1], ie[1]))
                                st.env[ik] = m
                                st.add_fact(init, m, 0)
                                st.add_fact(end, m, 0)
                                self._max_below_cap(st, region, m, init, ok)
                            ps, pe = st.env.get(pk_s), st.env.get(pk_e)
                            cur = st.env.get(ik)
                            if is_int(ps) and is_int(pe) and st.diff_le(ps, cur, 0):
                                if st.diff_le(cur, pe, 0):
                                    st.env[ik] = pe
                                elif not st.diff_le(pe, cur, 0):
                                    ic, ip = st.get_iv(cur), st.get_iv(pe)
                                    m2 = new_int(max(ic[0], ip[0]), max(ic[1], ip[1]))
                                    st.env[ik] = m2
                                    st.add_fact(cur, m2, 0)
                                    st.add_fact(pe, m2, 0)
                                    self._max_below_cap(st, region, m2, cur, self.within_cap(st, region, pe, st.get_iv(pe)[1])[0])
                                st.env.pop(pk_s, None)
                                st.env.pop(pk_e, None)
                        elif st.env.get(pk_s) is None:
                            st.env[pk_s] = off
                            st.env[pk_e] = end
            else:
                okr = False
                if init is not None and is_int(off):
                    if cnt_atom is None:
                        okr = st.diff_le(off, init, -1)
                    else:
                        e = self.sum_atom(st, off, cnt_atom)
                        okr = e is not None and st.diff_le(e, init, 0)
                self.ctx.oblige("raw-read-initialised", okr, inst, span,
                                "offset %s init %s" % (io, st.get_iv(init) if init is not None else None))

    def sum_atom(self, st, a, b):
        """atom for a + b if it can be formed exactly"""
        if a is None or b is None or not is_int(a) or not is_int(b):
            return None
        ia, ib = st.get_iv(a), st.get_iv(b)
        if ia[0] == ia[1] and ib[0] == ib[1]:
            return const_int(ia[0] + ib[0])
        if ib[0] == ib[1]:
            return self.addc(st, a, ib[0])
        if ia[0] == ia[1]:
            return self.addc(st, b, ia[0])
        k = ("add", min(a, b), max(a, b))
        r = G.cons.get(k)
        if r is None:
            r = new_int(ia[0] + ib[0], ia[1] + ib[1], ("add", a, b))
            G.cons[k] = r
        if st.facts:
            # x + i with (i - (L - x) <= c)  gives  (x + i) - L <= c
            for (p, q), c in list(st.facts.items()):
                if p in (a, b):
                    other = b if p == a else a
                    dq = G.df.get(q)
                    if dq and dq[0] == "sub" and dq[2] == other:
                        st.add_fact(r, dq[1], c)
        return r

    def sum_hi(self, st, a, b):
        s = self.sum_atom(st, a, b)
        if s is not None:
            return st.get_iv(s)[1]
        return INF

    def addc(self, st, a, c):
        if c == 0:
            return a
        d = G.df.get(a)
        if d and d[0] == "addc":
            return self.addc(st, d[1], d[2] + c)
        if d and d[0] == "const":
            return const_int(d[1] + c)
        k = ("addc", a, c)
        r = G.cons.get(k)
        if r is None:
            ia = G.base[a]
            r = new_int(ia[0] + c, ia[1] + c, ("addc", a, c))
            G.cons[k] = r
        ia = st.get_iv(a)
        if not st.set_iv(r, ia[0] + c, ia[1] + c):
            pass
        return r

    # -- operands / rvalues -------------------------------------------------------
    def const_val(self, c, st=None):
        ty = c["ty"]
        if "v" in c:
            k = ty.get("k")
            if k in ("int", "bool"):
                v = int(c["v"])
                return const_int(v)
            if k == "float":
                return new_top()
            return None
        if "enum_variant" in c:
            v = c["enum_variant"]
            d = {}
            if v is not None:
                d[("discr",)] = const_int(self.discr_value(ty, v))
                for i, fv in enumerate(c.get("fields", [])):
                    a = self.decoded(fv, None, st)
                    if a is not None:
                        d[(("v", v), ("f", i))] = a
            return Fields(d)
        if "val" in c:
            return self.decoded(c["val"], ty, st)
        if "fn" in c or "closure" in c or "zst" in c:
            return None
        return fresh_of_type(ty)

    def discr_value(self, ty, variant):
        # discriminant value of a variant: equal to the index for the enums this program uses, except Ordering
        if ty.get("k") == "adt" and nz(ty.get("name", "")) == "core::cmp::Ordering":
            return variant - 1
        return variant

    def decoded(self, v, ty=None, st=None):
        """decoded constant (driver's typed decoder) -> value"""
        if isinstance(v, str):
            try:
                return const_int(int(v))
            except ValueError:
                return None
        if isinstance(v, dict):
            if "fbits" in v:
                return new_top()
            if "ref" in v:
                inner = v["ref"]
                tt = (ty or {}).get("to", {})
                if isinstance(inner, list) and tt.get("k") == "array":
                    return new_ptr(("loc_const_array", self.const_region(inner, tt)))
                a = self.decoded(inner, tt, st)
                if isinstance(a, int):
                    return new_ptr(("val", a))
                if isinstance(a, Fields) and st is not None:
                    # reference to a constant aggregate: materialise it once in the constants frame (frame 0)
                    key = (0, "const:" + str(abs(hash(repr(inner))) % (10 ** 12)))
                    if not has_sub(st, key):
                        write(st, key, a)
                    return new_ptr(("loc", key))
                return new_top()
            if "slice" in v and isinstance(v["slice"], list):
                reg = self.const_region(v["slice"], (ty or {}).get("to", {}))
                return new_ptr(("slice", reg, const_int(0), const_int(len(v["slice"]))))
            if "static" in v:
                return new_ptr(("static", v["static"]))
            if "zst" in v:
                return None
            if "undecoded" in v or "deep" in v or "nolayout" in v or "ptr" in v:
                return None
            if "enum_variant" in v:
                vi = v["enum_variant"]
                d = {}
                if vi is not None and ty is not None:
                    d[("discr",)] = const_int(self.discr_value(ty, vi))
                    for i, fv in enumerate(v.get("fields", [])):
                        fty = None
                        a = self.decoded(fv, fty, st)
                        if isinstance(a, Fields):
                            for pth, x in a.d.items():
                                d[(("v", vi), ("f", i)) + pth] = x
                        elif a is not None:
                            d[(("v", vi), ("f", i))] = a
                return Fields(d) if d else None
            # struct
            d = {}
            # struct field order = declaration order = field index order
            for i, (name, fv) in enumerate(v.items()):
                a = self.decoded(fv, None, st)
                if isinstance(a, Fields):
                    for p, x in a.d.items():
                        d[(("f", i),) + p] = x
                elif a is not None:
                    d[(("f", i),)] = a
            return Fields(d)
        if isinstance(v, list):
            return None
        return None

    def const_region(self, elems, aty):
        ints = []
        for e in elems:
            if isinstance(e, str):
                try:
                    ints.append(int(e))
                except ValueError:
                    pass
        hull = (min(ints), max(ints)) if ints and len(ints) == len(elems) else None
        return ("const", id(elems) if False else len(elems), len(elems), hull)

    def operand(self, st, fr, inst, o, span=None):
        if "copy" in o:
            return self.read_place(st, fr, inst, o["copy"], span)
        if "move" in o:
            return self.read_place(st, fr, inst, o["move"], span)
        if "const" in o:
            return self.const_val(o["const"], st)
        return None

    def operand_ty(self, o):
        if "copy" in o:
            return o["copy"]["ty"]
        if "move" in o:
            return o["move"]["ty"]
        if "const" in o:
            return o["const"]["ty"]
        return {}

    # arithmetic ----------------------------------------------------------------
    def carry_test(self, st, op, a, b, inst, span):
        """r = x +wrapping y (unsigned) carried out  <=>  r < x  <=>  r < y.  An ordering test between r and one of its own operands is a
        carry test; it must be one of  r < x, x > r (carry)  or  r >= x, x <= r (no carry).  The other four forms differ from the carry
        exactly when the other operand is 0 (r == x without a carry), so they are accepted only if that operand is known non-zero."""
        for r, x, r_left in ((a, b, True), (b, a, False)):
            d = G.df.get(r)
            if not d or d[0] != "wadd" or x not in (d[1], d[2]):
                continue
            other = d[2] if x == d[1] else d[1]
            if d[1] == d[2]:
                other = x
            exact = (op in ("Lt", "Ge")) if r_left else (op in ("Gt", "Le"))
            O = st.get_iv(other)
            self.ctx.oblige("carry-test equals the carry of the wrapping addition", exact or O[0] >= 1, inst, span,
                            "comparison %s between a wrapping sum and its own operand; it differs from the carry when the other addend (%s) is 0" % (op, O))
            return

    def wrap_iv(self, ty, lo, hi):
        r = trange(ty)
        if r is None:
            return (lo, hi), True
        if lo >= r[0] and hi <= r[1]:
            return (lo, hi), True
        return r, False

    def binop(self, st, op, a, b, ty, inst=None, span=None):
        """returns atom (value). ty = result type"""
        if not (is_int(a) and is_int(b)):
            if op in ("Eq", "Ne", "Lt", "Le", "Gt", "Ge"):
                if a is not None and a == b and op in ("Eq", "Le", "Ge"):
                    return const_int(1)
                return new_int(0, 1)
            if op == "Offset":
                return self.ptr_offset(st, a, b, inst, span)
            return fresh_of_type(ty)
        if ty is not None and ty.get("k") == "float":
            return new_top()
        A, B = st.get_iv(a), st.get_iv(b)
        if op in ("Eq", "Ne", "Lt", "Le", "Gt", "Ge"):
            if inst is not None and op in ("Lt", "Le", "Gt", "Ge"):
                self.carry_test(st, op, a, b, inst, span)
            return self.cmp(st, op, a, b)
        tr = trange(ty)
        if op in ("Add", "Sub", "Mul") and inst is not None and inst["krate"] in CRATES and self.ctx.mode == "rel":
            # release MIR carries no overflow Assert: a wrapping `+ - *` written without wrapping_* is an obligation of its own
            if op == "Add":
                l_, h_ = A[0] + B[0], A[1] + B[1]
            elif op == "Sub":
                l_, h_ = A[0] - B[1], A[1] - B[0]
                if st.facts:
                    l_ = max(l_, -st.best_diff(b, a))
                    h_ = min(h_, st.best_diff(a, b))
            else:
                c_ = [A[0] * B[0], A[0] * B[1], A[1] * B[0], A[1] * B[1]]
                l_, h_ = min(c_), max(c_)
            if tr is not None:
                self.ctx.oblige("arith-no-wrap:" + op, tr[0] <= l_ and h_ <= tr[1], inst, span, "l=%s r=%s" % (A, B))
        if op in ("Add", "AddUnchecked"):
            (lo, hi), exact = self.wrap_iv(ty, A[0] + B[0], A[1] + B[1])
            if exact:
                s = self.sum_atom(st, a, b)
                st.set_iv(s, lo, hi)
                return s
            if tr is not None and tr[0] == 0:
                return new_int(lo, hi, ("wadd", a, b))      # unsigned sum that may wrap: remembered for the carry-test rule
            return new_int(lo, hi)
        if op in ("Sub", "SubUnchecked"):
            l0, h0 = A[0] - B[1], A[1] - B[0]
            if st.facts:
                l0 = max(l0, -st.best_diff(b, a))
                h0 = min(h0, st.best_diff(a, b))
            (lo, hi), exact = self.wrap_iv(ty, l0, h0)
            if exact:
                return self.diff_atom(st, a, b, lo, hi)
            return new_int(lo, hi)
        if op in ("Mul", "MulUnchecked"):
            c = [A[0] * B[0], A[0] * B[1], A[1] * B[0], A[1] * B[1]]
            (lo, hi), exact = self.wrap_iv(ty, min(c), max(c))
            if exact and B[0] == B[1] and B[0] > 0:
                k = ("mulc", a, B[0])
                r = G.cons.get(k)
                if r is None:
                    r = G.cons[k] = new_int(G.base[a][0] * B[0], G.base[a][1] * B[0], ("mulc", a, B[0]))
                st.set_iv(r, lo, hi)
                return r
            return new_int(lo, hi)
        if op == "Div":
            if B[0] > 0 and B[0] == B[1]:
                k = ("divc", a, B[0])
                r = G.cons.get(k)
                if r is None:
                    r = G.cons[k] = new_int(tr[0], tr[1], ("divc", a, B[0]))
                return r
            if B[0] > 0 and A[0] >= 0:
                return new_int(A[0] // B[1], A[1] // B[0])
            if B[0] > 0:
                m = max(abs(A[0]), abs(A[1]))
                return new_int(-m, m)
            return new_int(*tr)
        if op == "Rem":
            if B[0] > 0 and B[0] == B[1]:
                k = ("remc", a, B[0])
                r = G.cons.get(k)
                if r is None:
                    r = G.cons[k] = new_int(-(B[0] - 1) if tr[0] < 0 else 0, B[0] - 1, ("remc", a, B[0]))
                return r
            if B[0] > 0 and A[0] >= 0:
                return new_int(0, min(A[1], B[1] - 1))
            if B[0] > 0:
                return new_int(-(B[1] - 1), B[1] - 1)
            return new_int(*tr)
        if op == "BitAnd":
            if tr == (0, 1):
                k = ("band", min(a, b), max(a, b))
                r = G.cons.get(k)
                if r is None:
                    r = G.cons[k] = new_int(0, 1, ("band", a, b))
                lo = 1 if A[0] == 1 and B[0] == 1 else 0
                hi = 0 if A[1] == 0 or B[1] == 0 else 1
                st.set_iv(r, lo, hi)
                return r
            if A[0] >= 0 and B[0] >= 0:
                hi = min(A[1], B[1])
                if B[0] == B[1] and B[0] > 0 and B[0] & (B[0] - 1) == 0 and A[0] >= B[0] and A[1] < 2 * B[0]:
                    return const_int(B[0])      # the masked bit is known to be set and nothing above it exists
                if B[0] == B[1]:
                    k = ("andc", a, B[0])
                    r = G.cons.get(k)
                    if r is None:
                        r = G.cons[k] = new_int(0, B[0], ("andc", a, B[0]))
                    lo = 0
                    mk = B[0]
                    # every value of the operand fits in bit_length(A.hi) bits, so the result has no bit outside (2^bl - 1) & mask
                    hi = min(hi, ((1 << A[1].bit_length()) - 1) & mk)
                    if mk > 0:
                        # mask = ones in bit positions [lowb, topb): if every value of the operand has the same bits above topb,
                        # the field below topb ranges over an interval and the masked value is that interval with its low bits cleared
                        lowb = (mk & -mk).bit_length() - 1
                        topb = mk.bit_length()
                        if (mk >> lowb) + 1 == 1 << (topb - lowb) and (A[0] >> topb) == (A[1] >> topb):
                            m0, m1 = A[0] & ((1 << topb) - 1), A[1] & ((1 << topb) - 1)
                            lo, hi = (m0 >> lowb) << lowb, min(hi, (m1 >> lowb) << lowb)
                    st.set_iv(r, lo, hi)
                    return r
                if A[0] == A[1]:
                    return self.binop(st, op, b, a, ty)
                return new_int(0, hi)
            if B[0] >= 0:
                return new_int(0, B[1])
            if A[0] >= 0:
                return new_int(0, A[1])
            return new_int(*tr)
        if op == "BitOr":
            if tr == (0, 1):
                k = ("bor", min(a, b), max(a, b))
                r = G.cons.get(k)
                if r is None:
                    r = G.cons[k] = new_int(0, 1, ("bor", a, b))
                st.set_iv(r, max(A[0], B[0]), max(A[1], B[1]))
                return r
            if A[0] >= 0 and B[0] >= 0:
                for (x, X), (y, Y) in (((a, A), (b, B)), ((b, B), (a, A))):
                    dy = G.df.get(y)
                    if dy and dy[0] == "shl_c" and X[1] < (1 << dy[2]):
                        return new_int(X[0] + Y[0], X[1] + Y[1])     # disjoint bit ranges: or == add
                    if Y[0] == Y[1] and Y[0] > 0 and X[1] < (Y[0] & -Y[0]):
                        return new_int(X[0] + Y[0], X[1] + Y[0])
                m = max(A[1], B[1])
                hi = (1 << m.bit_length()) - 1
                return new_int(max(A[0], B[0]), max(hi, 0))
            return new_int(*tr)
        if op == "BitXor":
            if A[0] >= 0 and B[0] >= 0:
                if B == (1, 1) and A[1] <= 1:
                    k = ("xor1", a)
                    r = G.cons.get(k)
                    if r is None:
                        r = G.cons[k] = new_int(0, 1, ("xor1", a))
                    st.set_iv(r, 1 - A[1], 1 - A[0])
                    return r
                m = max(A[1], B[1])
                return new_int(0, (1 << m.bit_length()) - 1)
            return new_int(*tr)
        if op in ("Shl", "ShlUnchecked"):
            bits = ty["bits"]
            if B[0] >= 0 and B[1] < bits and A[0] >= 0:
                hi = A[1] << B[1]
                lo = A[0] << B[0]
                if hi <= tr[1]:
                    if B[0] == B[1]:
                        k = ("shl_c", a, B[0])
                        r = G.cons.get(k)
                        if r is None:
                            r = G.cons[k] = new_int(G.base[a][0] << B[0] if G.base[a][0] >= 0 else tr[0], min(G.base[a][1] << B[0], INF), ("shl_c", a, B[0]))
                        st.set_iv(r, lo, hi)
                        return r
                    return new_int(lo, hi)
                # bits are shifted out, but they are the same bits for every value of the operand: the rest is an interval again
                if B[0] == B[1] and not ty["signed"] and (A[0] >> (bits - B[0])) == (A[1] >> (bits - B[0])):
                    msk = (1 << (bits - B[0])) - 1
                    return new_int((A[0] & msk) << B[0], (A[1] & msk) << B[0])
                # w << ((w >> (bits-1)) ^ 1): shifts by one exactly when the top bit is clear
                db = G.df.get(b)
                if db and db[0] == "xor1" and not ty["signed"]:
                    ds = G.df.get(db[1])
                    if ds and ds[0] == "shr_c" and ds[1] == a and ds[2] == bits - 1:
                        top = 1 << (bits - 1)
                        lo_set = max(A[0], top)                 # branch: top bit set, shift 0
                        lo_clr = 2 * A[0]                       # branch: top bit clear, shift 1, value < 2^(bits-1)
                        cands = []
                        if A[1] >= top:
                            cands.append(lo_set)
                        if A[0] < top:
                            cands.append(min(lo_clr, tr[1]))
                        return new_int(min(cands) if cands else 0, tr[1])
                # normalising shift: x << clz(x) has its top bit set (x != 0)
                db = G.df.get(b)
                if db and db[0] == "clz" and db[1] == a and A[0] >= 1 and not ty["signed"]:
                    return new_int(1 << (bits - 1), tr[1])
            return new_int(*tr)
        if op in ("Shr", "ShrUnchecked"):
            bits = ty["bits"]
            if B[0] >= 0 and B[1] < bits and A[0] >= 0:
                if B[0] == B[1]:
                    k = ("shr_c", a, B[0])
                    r = G.cons.get(k)
                    if r is None:
                        r = G.cons[k] = new_int(0 if G.base[a][0] >= 0 else tr[0], max(G.base[a][1], 0) >> B[0], ("shr_c", a, B[0]))
                    st.set_iv(r, A[0] >> B[0], A[1] >> B[0])
                    return r
                # x >> ((x >> (bits-1)) + c): the shift is c+1 exactly when the top bit of x is set
                db = G.df.get(b)
                c0, ub = 0, b
                if db and db[0] == "addc":
                    ub, c0 = db[1], db[2]
                du = G.df.get(ub)
                if du and du[0] == "shr_c" and du[1] == a and du[2] == bits - 1 and c0 >= 0 and c0 + 1 < bits and not ty["signed"]:
                    top = 1 << (bits - 1)
                    cands = []
                    if A[0] < top:
                        cands.append((A[0] >> c0, min(A[1], top - 1) >> c0))
                    if A[1] >= top:
                        cands.append((max(A[0], top) >> (c0 + 1), A[1] >> (c0 + 1)))
                    if cands:
                        return new_int(min(x[0] for x in cands), max(x[1] for x in cands))
                return new_int(A[0] >> B[1], A[1] >> B[0])
            if B[0] >= 0 and B[1] < bits:
                # arithmetic shift = floor division by a power of two (monotone in the operand)
                c = [A[0] >> B[0], A[0] >> B[1], A[1] >> B[0], A[1] >> B[1]]
                return new_int(min(c), max(c))
            return new_int(*tr)
        return new_int(*tr) if tr else new_top()

    def diff_atom(self, st, a, b, lo, hi):
        A, B = st.get_iv(a), st.get_iv(b)
        if B[0] == B[1]:
            r = self.addc(st, a, -B[0])
            st.set_iv(r, lo, hi)
            return r
        k = ("sub", a, b)
        r = G.cons.get(k)
        if r is None:
            ba, bb = G.base[a], G.base[b]
            r = G.cons[k] = new_int(ba[0] - bb[1], ba[1] - bb[0], ("sub", a, b))
        st.set_iv(r, lo, hi)
        return r

    def cmp(self, st, op, a, b):
        if op in ("Gt", "Ge"):   # canonicalise
            op = {"Gt": "Lt", "Ge": "Le"}[op]
            a, b = b, a
        log = getattr(self.ctx, "cmp_log", None)
        if log is not None and op in ("Lt", "Le"):
            # comparisons between a tracked argument atom and a constant, as effective INCLUSIVE bounds on the argument
            for x, c, x_left in ((a, b, True), (b, a, False)):
                C = st.get_iv(c)
                if x in self.ctx.arg_atoms.values() and C[0] == C[1] and x != c:
                    if x_left:      # x < c  /  x <= c   : upper bound
                        log.append(("max", x, C[0] - 1 if op == "Lt" else C[0]))
                    else:           # c < x  /  c <= x   : lower bound
                        log.append(("min", x, C[0] + 1 if op == "Lt" else C[0]))
        k = ("cmp", op, a, b)
        r = G.cons.get(k)
        if r is None:
            r = G.cons[k] = new_int(0, 1, ("cmp", op, a, b))
        # evaluate in this state
        t = f = False
        if op == "Lt":
            t = st.diff_le(a, b, -1)
            f = st.diff_le(b, a, 0)
        elif op == "Le":
            t = st.diff_le(a, b, 0)
            f = st.diff_le(b, a, -1)
        elif op == "Eq":
            A, B = st.get_iv(a), st.get_iv(b)
            t = a == b or (A[0] == A[1] == B[0] == B[1]) or (st.diff_le(a, b, 0) and st.diff_le(b, a, 0))
            f = A[1] < B[0] or B[1] < A[0] or st.diff_le(a, b, -1) or st.diff_le(b, a, -1)
        elif op == "Ne":
            A, B = st.get_iv(a), st.get_iv(b)
            f = a == b or (A[0] == A[1] == B[0] == B[1])
            t = A[1] < B[0] or B[1] < A[0] or st.diff_le(a, b, -1) or st.diff_le(b, a, -1)
        if t:
            st.set_iv(r, 1, 1) if st.raw_iv(r) != (1, 1) else None
            st.iv[r] = (1, 1)
        elif f:
            st.iv[r] = (0, 0)
        return r

    def ptr_offset(self, st, p, n, inst, span):
        d = G.ptr.get(p) if isinstance(p, int) else None
        if d is None or not is_int(n):
            self.ctx.oblige("ptr-offset-in-bounds", False, inst, span, "pointer arithmetic on an untracked pointer")
            return new_top()
        if d[0] == "buf":
            off = self.sum_atom(st, d[2], n)
            io = st.get_iv(off) if off is not None else None
            okc, cap = self.within_cap(st, d[1], off, io[1]) if io is not None else (False, None)
            ok = io is not None and io[0] >= 0 and okc
            self.ctx.oblige("ptr-offset-in-bounds", ok, inst, span, "offset %s capacity %s" % (io, cap))
            return new_ptr(("buf", d[1], off if off is not None else new_int(0, INF)))
        self.ctx.oblige("ptr-offset-in-bounds", False, inst, span, "pointer arithmetic on %s" % d[0])
        return new_top()

    def cast(self, st, kind, a, fty, tty, inst, span):
        if kind.startswith("IntToInt"):
            if not is_int(a):
                return fresh_of_type(tty)
            A = st.get_iv(a)
            r = trange(tty)
            if r is None:
                return new_top()
            ok = A[0] >= r[0] and A[1] <= r[1]
            rf = trange(fty)
            narrowing = rf is not None and (rf[0] < r[0] or rf[1] > r[1])
            if narrowing:
                self.ctx.oblige("cast-value-preserving", ok, inst, span, "operand %s into %s" % (A, r))
            if ok:
                return a
            # truncation / reinterpretation
            bits = tty["bits"]
            if not tty["signed"] and A[0] >= 0:
                k = ("trunc", a, bits)
                x = G.cons.get(k)
                if x is None:
                    x = G.cons[k] = new_int(r[0], r[1], ("trunc", a, bits))
                return x
            if tty["signed"] and fty.get("k") == "int" and not fty["signed"] and fty["bits"] == bits:
                pass
            return new_int(r[0], r[1])
        if kind.startswith("IntToFloat") or kind.startswith("FloatToFloat"):
            return new_top()
        if kind.startswith("FloatToInt"):
            r = trange(tty)
            return new_int(*r) if r else new_top()
        if kind.startswith("PtrToPtr") or kind.startswith("PointerCoercion(MutToConstPointer"):
            return self.ptr_cast(st, a, fty, tty)
        if kind.startswith("PointerCoercion(Unsize"):
            d = G.ptr.get(a) if isinstance(a, int) else None
            src = fty.get("to", {})
            if src.get("k") == "array":
                n = src["len"]
                if d and d[0] == "loc":
                    return new_ptr(("slice", ("loc", d[1], n, "arr"), const_int(0), const_int(n)))
                if d and d[0] == "loc_const_array":
                    return new_ptr(("slice", d[1], const_int(0), const_int(n)))
                if d and d[0] == "static":
                    return new_ptr(("slice", ("static", d[1], n), const_int(0), const_int(n)))
                return new_ptr(("slice", ("ext", "anon-array", None), const_int(0), const_int(n)))
            return a if a is not None else new_top()
        if kind.startswith("Transmute"):
            if fty.get("k") in ("ref", "ptr") and tty.get("k") in ("ref", "ptr", "adt"):
                return a
            if is_int(a) and trange(tty) is not None:
                A = st.get_iv(a)
                r = trange(tty)
                if A[0] >= r[0] and A[1] <= r[1]:
                    return a
            if is_int(a) and tty.get("k") == "float" and getattr(self.ctx, "float_bits", False):
                A = st.get_iv(a)
                if A[0] >= 0 and A[1] < (1 << tty["bits"]):
                    return a                      # bit-level jobs carry floats as their bit patterns
            return fresh_of_type(tty)
        if kind.startswith("PointerCoercion"):
            return a
        return fresh_of_type(tty)

    def ptr_cast(self, st, a, fty, tty):
        d = G.ptr.get(a) if isinstance(a, int) else None
        if d is None:
            return a if a is not None else new_top()
        f_in, t_in = fty.get("to", {}), tty.get("to", {})
        # fat slice pointer -> thin element pointer
        if d[0] == "slice" and t_in.get("k") not in ("slice", "str"):
            return new_ptr(("buf", d[1], d[2] if d[2] is not None else new_int(0, INF)))
        if d[0] == "loc" and f_in.get("k") == "array":
            return new_ptr(("buf", ("loc", d[1], f_in["len"], "arr"), const_int(0)))
        return a

    def rvalue(self, st, fr, inst, rv, dty, span):
        k = rv["rv"]
        if k == "use":
            return self.operand(st, fr, inst, rv["a"], span)
        if k == "bin":
            op = rv["op"]
            a = self.operand(st, fr, inst, rv["a"], span)
            b = self.operand(st, fr, inst, rv["b"], span)
            if op.endswith("WithOverflow"):
                return self.with_overflow(st, op[:-12], a, b, dty)
            if op == "Cmp":
                return Fields({("discr",): new_int(-1, 1)})
            return self.binop(st, op, a, b, dty, inst, span)
        if k == "un":
            a = self.operand(st, fr, inst, rv["a"], span)
            op = rv["op"]
            if op == "Not":
                if not is_int(a):
                    return fresh_of_type(dty)
                A = st.get_iv(a)
                if dty.get("k") == "bool":
                    kk = ("not", a)
                    r = G.cons.get(kk)
                    if r is None:
                        r = G.cons[kk] = new_int(0, 1, ("not", a))
                    st.set_iv(r, 1 - A[1], 1 - A[0])
                    return r
                tr = trange(dty)
                if tr and not dty["signed"]:
                    return new_int(tr[1] - A[1], tr[1] - A[0])
                return new_int(*tr) if tr else new_top()
            if op == "Neg":
                if not is_int(a):
                    return fresh_of_type(dty)
                A = st.get_iv(a)
                tr = trange(dty)
                if tr is None:
                    return new_top()
                if -A[1] >= tr[0] and -A[0] <= tr[1]:
                    kk = ("neg", a)
                    r = G.cons.get(kk)
                    if r is None:
                        r = G.cons[kk] = new_int(-G.base[a][1], -G.base[a][0], ("neg", a))
                    st.set_iv(r, -A[1], -A[0])
                    return r
                return new_int(*tr)
            if op == "PtrMetadata":
                d = G.ptr.get(a) if isinstance(a, int) else None
                if d and d[0] == "slice":
                    return d[3]
                return new_int(0, A1_BOUND)
            return fresh_of_type(dty)
        if k == "cast":
            a = self.operand(st, fr, inst, rv["a"], span)
            return self.cast(st, rv["kind"], a, rv["from"], rv["to"], inst, span)
        if k in ("ref", "rawptr"):
            cur = self.lv(st, fr, inst, rv["place"], span)
            c = cur[0]
            if c == "key":
                return new_ptr(("loc", cur[1]))
            if c == "slicewhole":
                return cur[1]
            if c == "valcell":
                return new_ptr(("val", cur[1]))
            if c == "bufelem":
                return new_ptr(("buf", cur[1], cur[2]))
            if c in ("elem", "arrelem", "staticelem"):
                ety = rv["place"]["ty"]
                v = self.load_lv(st, cur, ety)
                return new_ptr(("val", v if isinstance(v, int) else None))
            if c == "static":
                return new_ptr(("static", cur[1]))
            return new_top()
        if k == "discr":
            cur = self.lv(st, fr, inst, rv["place"], span)
            if cur[0] == "key":
                dk = cur[1] + ("discr",)
                a = st.env.get(dk)
                if a is None:
                    a = new_int(-1, 1 << 16)
                    st.env[dk] = a
                return a
            return new_int(-1, 1 << 16)
        if k == "agg":
            kind = rv["kind"]
            vals = [self.operand(st, fr, inst, o, span) for o in rv["ops"]]
            d = {}
            base = ()
            if kind["agg"] == "adt" and kind.get("enum"):
                v = kind["variant"]
                d[("discr",)] = const_int(self.discr_value({"k": "adt", "name": kind["name"]}, v))
                base = (("v", v),)
            if kind["agg"] == "other" and "RawPtr" in kind.get("s", ""):
                # fat pointer from (thin pointer, length)
                p, n = vals[0], vals[1] if len(vals) > 1 else None
                dd = G.ptr.get(p) if isinstance(p, int) else None
                if dd and dd[0] == "buf" and is_int(n):
                    return new_ptr(("slice", dd[1], dd[2], n))
                return new_top()
            for i, v in enumerate(vals):
                if v is None:
                    continue
                if isinstance(v, Agg):
                    v = snapshot(st, v)
                if isinstance(v, Fields):
                    for p, x in v.d.items():
                        d[base + (("f", i),) + p] = x
                else:
                    d[base + (("f", i),)] = v
            return Fields(d)
        if k == "repeat":
            a = self.operand(st, fr, inst, rv["a"], span)
            n = rv.get("n") or 0
            uninit = isinstance(a, int) and a in G.obj and G.obj[a][0] == "uninit"
            return Fields({(): new_obj(("array", ("n", n))), (("g", "init"),): const_int(0 if uninit else n)})
        return fresh_of_type(dty)

    def with_overflow(self, st, op, a, b, dty):
        vty = dty["elems"][0]
        if not (is_int(a) and is_int(b)):
            return Fields({(("f", 0),): fresh_of_type(vty), (("f", 1),): new_int(0, 1)})
        A, B = st.get_iv(a), st.get_iv(b)
        tr = trange(vty)
        if op == "Add":
            lo, hi = A[0] + B[0], A[1] + B[1]
        elif op == "Sub":
            lo, hi = A[0] - B[1], A[1] - B[0]
            if st.facts:
                lo = max(lo, -st.best_diff(b, a))
                hi = min(hi, st.best_diff(a, b))
        else:
            c = [A[0] * B[0], A[0] * B[1], A[1] * B[0], A[1] * B[1]]
            lo, hi = min(c), max(c)
        if lo >= tr[0] and hi <= tr[1]:
            v = self.binop(st, op, a, b, vty)
            return Fields({(("f", 0),): v, (("f", 1),): const_int(0)})
        if hi < tr[0] or lo > tr[1]:
            return Fields({(("f", 0),): new_int(*tr), (("f", 1),): const_int(1)})
        ovf = new_int(0, 1, ("ovf", op, a, b, vty["bits"], vty["signed"]))
        return Fields({(("f", 0),): new_int(tr[0], tr[1], ("wrapped", op, a, b, ovf)), (("f", 1),): ovf})

    def exact_after_no_overflow(self, st, op, a, b, vty):
        """value of `a op b` knowing that it did not overflow"""
        A, B = st.get_iv(a), st.get_iv(b)
        tr = trange(vty)
        if op == "Add":
            s = self.sum_atom(st, a, b)
            if not st.set_iv(s, max(A[0] + B[0], tr[0]), min(A[1] + B[1], tr[1])):
                return None
            return s
        if op == "Sub":
            lo, hi = max(A[0] - B[1], tr[0]), min(A[1] - B[0], tr[1])
            if lo > hi:
                return None
            r = self.diff_atom(st, a, b, lo, hi)
            # a - b >= lo  =>  b - a <= -lo
            if tr[0] == 0:
                if not st.add_fact(b, a, 0):
                    return None
            return r
        c = [A[0] * B[0], A[0] * B[1], A[1] * B[0], A[1] * B[1]]
        lo, hi = max(min(c), tr[0]), min(max(c), tr[1])
        if lo > hi:
            return None
        if B[0] == B[1] and B[0] > 0:
            k = ("mulc", a, B[0])
            r = G.cons.get(k)
            if r is None:
                r = G.cons[k] = new_int(G.base[a][0] * B[0], G.base[a][1] * B[0], ("mulc", a, B[0]))
            st.set_iv(r, lo, hi)
            # back-propagate to the operand
            st.set_iv(a, -(-lo // B[0]) if lo > 0 else A[0], hi // B[0])
            return r
        return new_int(lo, hi)

    # -- statements ---------------------------------------------------------------
    def exec_stmt(self, st, fr, inst, s):
        k = s["k"]
        if k == "assign":
            v = self.rvalue(st, fr, inst, s["rv"], s["place"]["ty"], s["span"])
            if isinstance(v, Agg):
                v = snapshot(st, v)
            self.write_place(st, fr, inst, s["place"], v, s["span"])
            return True
        if k == "setdiscr":
            cur = self.lv(st, fr, inst, s["place"])
            if cur[0] == "key":
                st.env[cur[1] + ("discr",)] = const_int(s["variant"])
            return True
        if k == "assume":
            a = self.operand(st, fr, inst, s["a"])
            if is_int(a):
                return st.refine_bool(a, True)
            return True
        if k == "copy_nonoverlapping":
            src = self.operand(st, fr, inst, s["src"])
            dst = self.operand(st, fr, inst, s["dst"])
            cnt = self.operand(st, fr, inst, s["count"])
            self.mem_copy(st, inst, s.get("span"), src, dst, cnt)
            return True
        return True

    def mem_copy(self, st, inst, span, src, dst, cnt):
        ds, dd = (G.ptr.get(src) if isinstance(src, int) else None), (G.ptr.get(dst) if isinstance(dst, int) else None)
        if dd and dd[0] == "buf":
            self.raw_access(st, inst, span, ("bufelem", dd[1], dd[2], True), write=True, count=cnt)
        else:
            self.ctx.oblige("raw-write-in-capacity", False, inst, span, "copy to an untracked destination")
            st.ghost.pop(("pristine",), None)
        if ds and ds[0] == "buf":
            if ds[1][0] == "loc":
                self.raw_access(st, inst, span, ("bufelem", ds[1], ds[2], True), write=False, count=cnt)
            else:
                # source is a borrowed slice: count must not exceed its length -- established by the summaries
                pass
        elif ds and ds[0] == "slice":
            pass
        else:
            self.ctx.oblige("raw-read-in-capacity", False, inst, span, "copy from an untracked source")

    # -- function execution ----------------------------------------------------------
    def partition_key(self, st, fr, inst=None):
        """disjuncts are kept apart by: boolean locals, enum discriminants, iterator flags (start / exhausted)"""
        items = []
        locs = inst["locals"] if inst is not None else None
        for key, a in st.env.frame(fr).items():
            if type(a) is int and a in G.base:
                if key[-1] == "discr" or (locs is not None and len(key) == 2 and locs[key[1]].get("k") == "bool"):
                    r = st.raw_iv(a)
                    if r[0] == r[1]:
                        items.append((key, r[0]))
            elif a in G.obj:
                o = G.obj[a]
                if o[0] == "iter":
                    items.append((key, self.summ.iter_flags(st, o)))
        items.sort(key=repr)
        return tuple(items)

    def reduce_states(self, states, fr, limit, inst=None):
        if len(states) <= limit:
            return states
        groups = {}
        for s in states:
            groups.setdefault(self.partition_key(s, fr, inst), []).append(s)
        out = []
        for g in groups.values():
            j = g[0]
            for s in g[1:]:
                j = join_states(j, s)
            out.append(j)
        if len(out) > limit:
            # join the remaining ones pairwise by similarity of keys (cheap: in order)
            out.sort(key=lambda s: repr(self.partition_key(s, fr, inst)))
            while len(out) > limit:
                a = out.pop()
                b = out.pop()
                out.append(join_states(a, b))
        self.ctx.notes["state reductions"] += 1
        return out

    def run_fn(self, inst, fr, entry_states):
        """returns list of (state, return value)"""
        ctx = self.ctx
        cfg = ctx.cfg(inst)
        ctx.insts_visited.add(inst["id"])
        edge = {("entry", 0): list(entry_states)}
        self.exec_items(inst, fr, cfg, cfg.wto, edge)
        exits = []
        for (src, dst), sts in edge.items():
            if dst == "ret":
                exits.extend(sts)
        return exits

    def exec_items(self, inst, fr, cfg, items, edge):
        for it in items:
            if isinstance(it, tuple):
                self.stabilise(inst, fr, cfg, it[1], it[2], edge)
            else:
                self.exec_block(inst, fr, cfg, it, edge, None)

    def gather(self, cfg, b, edge, back, pop=True):
        states = []
        preds = cfg.preds[b] + (["entry"] if b == 0 else [])
        for p in preds:
            isback = (p, b) in cfg.back
            if isback != back:
                continue
            k = (p, b)
            if k in edge:
                states.extend(edge.pop(k) if pop else edge[k])
        return states

    def exec_block(self, inst, fr, cfg, b, edge, states):
        if states is None:
            states = self.gather(cfg, b, edge, back=False)
        if not states:
            for w in cfg.succ[b]:
                edge.pop((b, w), None)
            edge.pop((b, "ret"), None)
            return
        if len(states) > MAX_BLOCK_STATES and not (self.ctx.keep_root_paths and fr == getattr(self.ctx, "root_frame", None)):
            states = self.reduce_states(states, fr, MAX_BLOCK_STATES, inst)
        blk = inst["blocks"][b]
        live = []
        for st in states:
            ok = True
            for s in blk["s"]:
                if not self.exec_stmt(st, fr, inst, s):
                    ok = False
                    break
            if ok:
                live.append(st)
        out = collections.defaultdict(list)
        if live:
            exits = []
            for succ, st2 in self.exec_term(live, fr, inst, blk["t"], b, exits):
                out[succ].append(st2)
            if exits:
                out["ret"] = exits
        for w in cfg.succ[b]:
            if w in out:
                edge[(b, w)] = out[w]
            else:
                edge.pop((b, w), None)
        if "ret" in out:
            edge[(b, "ret")] = out["ret"]
        else:
            edge.pop((b, "ret"), None)

    def loop_entry(self, st, fr, h):
        """forward edge into loop head h: ghost iteration counter = 0"""
        st.ghost[("iter", fr, h)] = const_int(0)
        return st

    def loop_back(self, st, fr, h):
        gk = ("iter", fr, h)
        g = st.ghost.get(gk)
        if g is not None:
            st.ghost[gk] = self.addc(st, g, 1)
        return st

    def assume_a1(self, st, fr, h):
        g = st.ghost.get(("iter", fr, h))
        if g is not None and is_int(g):
            if not st.set_iv(g, 0, A1_BOUND - 1):
                return None
        return st

    def head_candidates(self, fr, cfg, h, edge, inst=None):
        fwd = [self.loop_entry(s.copy(), fr, h) for s in self.gather(cfg, h, edge, back=False, pop=False)]
        back = [self.loop_back(s, fr, h) for s in self.gather(cfg, h, edge, back=True, pop=True)]
        cand = {}
        for s in fwd + back:
            pk = self.partition_key(s, fr, inst)
            cand[pk] = join_states(cand[pk], s) if pk in cand else s
        if len(cand) > MAX_PARTS:
            j = None
            for s in cand.values():
                j = s if j is None else join_states(j, s)
            cand = {(): j}
        return cand

    def run_loop_body(self, inst, fr, cfg, h, items, edge, head):
        states = [self.assume_a1(s.copy(), fr, h) for s in head.values()]
        states = [s for s in states if s is not None]
        self.exec_block(inst, fr, cfg, h, edge, states)
        self.exec_items(inst, fr, cfg, items, edge)

    def stabilise(self, inst, fr, cfg, h, items, edge):
        ctx = self.ctx
        saved = ctx.record
        ctx.record = False
        head = None
        hit = 0
        phit = collections.Counter()
        thr = ctx.fn_thresholds(inst)
        try:
            while True:
                hit += 1
                cand = self.head_candidates(fr, cfg, h, edge, inst)
                if not cand:
                    # loop unreachable
                    ctx.record = saved
                    self.exec_block(inst, fr, cfg, h, edge, [])
                    for it in self._blocks_of(items):
                        self.exec_block(inst, fr, cfg, it, edge, [])
                    return
                changed = False
                if head is None:
                    head = cand
                    changed = True
                else:
                    if len(head) == 1 and () in head and len(cand) > 1:
                        j = None
                        for s in cand.values():
                            j = s if j is None else join_states(j, s)
                        cand = {(): j}
                    new = {}
                    for pk, s in cand.items():
                        o = head.get(pk)
                        if o is None:
                            new[pk] = s
                            changed = True
                        elif state_leq(s, o):
                            new[pk] = o
                        else:
                            if DEBUG:
                                from . import domain as _d
                                print("%s   unstable %s bb%d #%d: %s" % ("  " * ctx.depth, inst["dpath"].split("::")[-1], h, hit, _d.WHY[0]), file=sys.stderr)
                            j = join_states(o, s)
                            if hit >= 3:
                                j = widen_state(o, j, thr, 0 if hit < 9 else 2)
                            new[pk] = j
                            changed = True
                    for pk, o in head.items():
                        if pk not in new:
                            new[pk] = o
                    head = new
                if not changed:
                    break
                if hit > MAX_ITERS:
                    ctx.record = saved
                    ctx.oblige("fixpoint-not-reached", False, inst, inst.get("span"), "loop at bb%d did not stabilise" % h)
                    ctx.record = False
                    ctx.notes["fixpoint iteration limit hit in " + inst["dpath"]] += 1
                    break
                self.run_loop_body(inst, fr, cfg, h, items, edge, head)
            # narrowing: head := F(head) while that is a strict improvement (at most twice)
            for _ in range(2):
                self.run_loop_body(inst, fr, cfg, h, items, edge, head)
                cand = self.head_candidates(fr, cfg, h, edge, inst)
                if set(cand) != set(head):
                    break
                strictly = False
                ok = True
                for pk, c in cand.items():
                    o = head[pk]
                    if not state_leq(c, o):
                        ok = False
                        break
                    if not state_leq(o, c):
                        strictly = True
                if not (ok and strictly):
                    break
                head = cand
            if DEBUG:
                print("%s[loop] %s bb%d stable after %d iterations, %d partitions" % ("  " * ctx.depth, inst["dpath"], h, hit, len(head)), file=sys.stderr)
        finally:
            ctx.record = saved
        # final execution with the stable head (records obligations when enabled, produces the exit edges)
        self.run_loop_body(inst, fr, cfg, h, items, edge, head)
        self.gather(cfg, h, edge, back=True, pop=True)

    def _blocks_of(self, items):
        for it in items:
            if isinstance(it, tuple):
                yield it[1]
                yield from self._blocks_of(it[2])
            else:
                yield it

    def exec_term(self, states, fr, inst, t, b, exits):
        k = t["k"]
        out = []
        if k == "goto":
            return [(t["t"], s) for s in states]
        if k == "return":
            for s in states:
                rv = self.load_lv(s, ("key", (fr, 0)), inst["locals"][0])
                exits.append((s, snapshot(s, rv)))
            return []
        if k == "switch":
            for s in states:
                out.extend(self.do_switch(s, fr, inst, t))
            return out
        if k == "assert":
            for s in states:
                r = self.do_assert(s, fr, inst, t)
                if r is not None:
                    out.append((t["t"], r))
            return out
        if k == "drop":
            for s in states:
                out.extend((t["t"], s2) for s2 in self.do_drop(s, fr, inst, t))
            return out
        if k == "call":
            if fr == getattr(self.ctx, "root_frame", None):
                for s in states:
                    s.ghost[("called",)] = const_int(1)      # this path of the entry function has executed a call
            if len(states) > 2 and self.is_heavy(t.get("callee")):
                states = self.reduce_states(states, fr, 2, inst)
            keep = None
            if getattr(self.ctx, "keep_results", None) and fr == getattr(self.ctx, "root_frame", None) and t.get("callee") is not None:
                c_ = self.ctx.mono.get(t["callee"])
                for suffix, name in self.ctx.keep_results.items():
                    if c_ is not None and c_["dpath"].endswith(suffix) and not t["dest"]["p"]:
                        keep = name
            for s in states:
                for s2 in self.do_call(s, fr, inst, t):
                    if keep is not None:
                        a_ = s2.env.get((fr, t["dest"]["l"]))
                        if is_int(a_):
                            s2.ghost[("result", keep)] = a_        # value returned by a named call of the entry function
                    if t["t"] is not None:
                        out.append((t["t"], s2))
            return out
        if k in ("unreachable", "resume", "abort"):
            return []
        if k == "asm":
            self.ctx.oblige("inline-asm", False, inst, t.get("span"), "inline asm is not modelled")
            return []
        self.ctx.unmodelled["terminator " + k] += 1
        return []

    def is_heavy(self, cid):
        """callee (transitively, depth 3) contains loops and more than 150 blocks: analyse it for few disjuncts only"""
        if cid is None:
            return False
        h = self._heavy.get(cid)
        if h is not None:
            return h
        seen = set()
        frontier = [cid]
        blocks = 0
        loops = False
        for _ in range(4):
            nxt = []
            for i in frontier:
                m = self.ctx.mono.get(i)
                if m is None or i in seen or "blocks" not in m:
                    continue
                seen.add(i)
                if m["krate"] not in CRATES:
                    continue
                blocks += len(m["blocks"])
                if self.ctx.cfg(m).heads:
                    loops = True
                for b in m["blocks"]:
                    if b["t"]["k"] == "call" and b["t"].get("callee") is not None:
                        nxt.append(b["t"]["callee"])
            frontier = nxt
        h = self._heavy[cid] = loops and blocks > 150
        return h

    def do_switch(self, st, fr, inst, t):
        d = self.operand(st, fr, inst, t["d"], t.get("span"))
        arms = [(int(v), tgt) for v, tgt in t["arms"]]
        dty = self.operand_ty(t["d"])
        if dty.get("k") == "int" and dty.get("signed"):
            bits = dty["bits"]
            arms = [((v - (1 << bits)) if v >= (1 << (bits - 1)) else v, tgt) for v, tgt in arms]
        out = []
        if not is_int(d):
            for v, tgt in arms:
                out.append((tgt, st.copy()))
            out.append((t["otherwise"], st))
            return out
        D = st.get_iv(d)
        vals = [v for v, _ in arms]
        for v, tgt in arms:
            if D[0] <= v <= D[1]:
                s2 = st.copy()
                if s2.set_iv(d, v, v):
                    # make singleton refinements visible through definitions
                    if s2._backprop(d, v, v, 0):
                        out.append((tgt, s2))
        # otherwise
        lo, hi = D
        while lo in vals and lo <= hi:
            lo += 1
        while hi in vals and hi >= lo:
            hi -= 1
        if lo <= hi:
            s2 = st
            if s2.set_iv(d, lo, hi):
                okb = True
                if lo == hi:
                    okb = s2._backprop(d, lo, hi, 0)
                if okb:
                    out.append((t["otherwise"], s2))
        return out

    def do_assert(self, st, fr, inst, t):
        c = self.operand(st, fr, inst, t["cond"], t.get("span"))
        exp = 1 if t["expected"] else 0
        msg = t["msg"]
        kind = "assert:" + msg["a"] + (":" + msg["op"] if "op" in msg else "")
        checked = True
        if msg["a"] in ("overflow", "overflow_neg") and self.ctx.mode == "rel" and inst["krate"] not in CRATES:
            # #[rustc_inherit_overflow_checks] bodies keep their Assert in MIR; codegen drops it when the
            # crate being compiled has overflow checks off: in the rel model the operation wraps
            checked = False
        if not is_int(c):
            if checked:
                self.ctx.oblige(kind, False, inst, t.get("span"), "condition not tracked")
            return st
        C = st.get_iv(c)
        proven = C == (exp, exp)
        if checked:
            detail = ""
            if not proven:
                detail = self.describe_assert(st, fr, inst, msg)
            self.ctx.oblige(kind, proven, inst, t.get("span"), detail)
        if not checked:
            return st
        if C[0] > exp or C[1] < exp:
            return None            # always fails: path ends (panic)
        if not st.refine_bool(c, bool(exp)):
            return None
        # knowledge gained from passing the check
        if msg["a"] == "overflow" and "move" in t["cond"] or msg["a"] == "overflow" and "copy" in t["cond"]:
            pl = t["cond"].get("move") or t["cond"].get("copy")
            if pl["p"] and pl["p"][-1] == {"f": 1}:
                a = self.operand(st, fr, inst, msg["l"])
                b = self.operand(st, fr, inst, msg["r"])
                if is_int(a) and is_int(b) and msg["op"] in ("Add", "Sub", "Mul"):
                    tup_ty = inst["locals"][pl["l"]]
                    vty = tup_ty["elems"][0] if tup_ty.get("k") == "tuple" else None
                    if vty is not None and not pl["p"][:-1]:
                        e = self.exact_after_no_overflow(st, msg["op"], a, b, vty)
                        if e is None:
                            return None
                        st.env[(fr, pl["l"], ("f", 0))] = e
        if msg["a"] == "bounds":
            i = self.operand(st, fr, inst, msg["index"])
            ln = self.operand(st, fr, inst, msg["len"])
            if is_int(i) and is_int(ln):
                if not st.add_fact(i, ln, -1):
                    return None
        return st

    def describe_assert(self, st, fr, inst, msg):
        parts = []
        for k in ("l", "r", "index", "len"):
            if k in msg:
                a = self.operand(st, fr, inst, msg[k])
                parts.append("%s=%s" % (k, st.get_iv(a) if is_int(a) else "?"))
        return " ".join(parts)

    def do_drop(self, st, fr, inst, t):
        g = t.get("glue")
        if g is None:
            return [st]
        callee = self.ctx.mono.get(g)
        if callee is None or "blocks" not in callee:
            return [st]
        # drop glue of types without Drop impls is field-wise and effect free for our purposes
        if callee["kind"] == "dropglue":
            return [st]
        return [st]

    # -- results that rescale another quantity (audit/contracts.py: SCALED_RESULTS) ----------
    def _scaled_info(self, inst, spec):
        key = (inst["id"], spec["consumer"])
        info = self._scaled_cache.get(key)
        if info is not None:
            return info
        from ..effects import _place_reads, _ops_of_rvalue
        reads = set(pl["l"] for pl in _place_reads(inst))
        # backward slice (flow-insensitive, over locals) from the consumer's argument
        acc = set()
        for b in inst["blocks"]:
            t = b["t"]
            if t.get("k") == "call" and t.get("callee") is not None:
                c = self.ctx.mono.get(t["callee"])
                if c is not None and c["dpath"] == spec["consumer"] and len(t["args"]) > spec["arg"]:
                    o = t["args"][spec["arg"]]
                    pl = o.get("copy") or o.get("move")
                    if pl:
                        acc.add(pl["l"])
        changed = bool(acc)
        while changed:
            changed = False
            for b in inst["blocks"]:
                for s_ in b["s"]:
                    if s_["k"] != "assign" or s_["place"]["l"] not in acc:
                        continue
                    for o in _ops_of_rvalue(s_["rv"]):
                        pl = o.get("copy") or o.get("move")
                        if pl and pl["l"] not in acc:
                            acc.add(pl["l"])
                            changed = True
        acc = set(l for l in acc if inst["locals"][l].get("k") in ("int", "tuple"))
        info = (reads, acc)
        self._scaled_cache[key] = info
        return info

    def scaled_drop_check(self, st, fr, inst, t, callee, span):
        from audit.contracts import SCALED_RESULTS
        spec = SCALED_RESULTS.get(callee["dpath"])
        if spec is None or "blocks" not in inst:
            return
        from audit.roles import actual
        spec = dict(spec, consumer=actual(self.ctx.facts, spec["consumer"]))
        reads, acc = self._scaled_info(inst, spec)
        d = t["dest"]
        kind = "scale-consumed: result of %s" % callee["dpath"].rsplit("::", 1)[-1]
        if d["p"] or d["l"] in reads or d["l"] == 0:
            self.ctx.oblige(kind, True, inst, span, "")      # consumed (or passed on): recorded so that the rule is never vacuous
            return
        bad = []
        for l in sorted(acc):
            for key, a in st.env.frame(fr).items():
                if key[1] != l:
                    continue
                if is_int(a) and st.get_iv(a) != (0, 0):
                    bad.append("_%d%s in %s" % (l, "".join(".%s" % (x[1],) for x in key[2:] if isinstance(x, tuple)), st.get_iv(a)))
        self.ctx.oblige(kind, not bad and bool(acc), inst, span,
                        ("the returned shift is dropped while a value that flows into %s may be non-zero: %s" % (spec["consumer"].rsplit("::", 1)[-1], ", ".join(bad[:4])))
                        if bad else ("no value flows into %s" % spec["consumer"] if not acc else ""))

    # -- calls ------------------------------------------------------------------------
    def do_call(self, st, fr, inst, t):
        ctx = self.ctx
        span = t.get("span") or {}
        cid = t.get("callee")
        callee = ctx.mono.get(cid) if cid is not None else None
        args = [self.operand(st, fr, inst, a, span) for a in t["args"]]
        args = [snapshot(st, a) for a in args]
        if callee is None:
            ctx.unmodelled["indirect call " + t.get("name", "?")] += 1
            ctx.oblige("unmodelled-call", False, inst, span, "indirect call")
            self.havoc_args(st, args)
            self.write_place(st, fr, inst, t["dest"], fresh_of_type(t["dest"]["ty"]), span)
            return [st]
        path = nz(callee["path"])
        if is_panic_entry(callee["path"]):
            ctx.oblige("panic", False, inst, span, "panic entry point `%s` is reachable" % path)
            ctx.paths_ended_in_panic += 1
            return []
        if ctx.frontend and callee["dpath"] == "minimal_lexical::parse::parse_float":
            # front-end analysis: the library is summarised (C04/C08 cover it); remember what it was called with
            ctx.lib_calls.append((st.copy(), args, inst, span))
            self.write_place(st, fr, inst, t["dest"], new_top(), span)
            return [st] if t["t"] is not None else []
        self.scaled_drop_check(st, fr, inst, t, callee, span)
        if getattr(ctx, "mark_calls", None) and fr == getattr(ctx, "root_frame", None):
            for suffix, mark in ctx.mark_calls.items():
                if callee["dpath"].endswith(suffix):
                    if mark.startswith("#"):          # counted: how many calls of this function lie on the path
                        prev = st.ghost.get(("visited", mark))
                        n0 = st.get_iv(prev)[0] if prev is not None else 0
                        st.ghost[("visited", mark)] = const_int(n0 + 1)
                        for ai, a in enumerate(args):
                            if is_int(a):
                                st.ghost[("arg", mark, n0, ai)] = a
                    else:
                        st.ghost[("visited", mark)] = const_int(1)
        if getattr(ctx, "arg_log", None) is not None:
            for suffix, log in ctx.arg_log.items():
                if callee["dpath"].endswith(suffix):
                    log.append((inst["dpath"], [st.get_iv(a) if is_int(a) else None for a in args]))
        ctx.callstack.append((inst, span))
        try:
            res = None
            c = self.mod.contract(callee) if ctx.use_contracts else None
            if c is not None:
                res = self.mod.apply(st, fr, inst, t, callee, args, c)
            if res is None:
                res = self.summ.apply(st, fr, inst, t, callee, args)
            if res is None:
                if "blocks" in callee and ctx.depth < MAX_DEPTH:
                    res = self.inline(st, callee, args, t)
                else:
                    ctx.unmodelled[path] += 1
                    ctx.oblige("unmodelled-call", False, inst, span, "no summary and no MIR for `%s`" % path)
                    self.havoc_args(st, args)
                    res = [(st, fresh_of_type(t["dest"]["ty"]))]
        finally:
            ctx.callstack.pop()
        out = []
        for s2, rv in res:
            if t["t"] is None:
                continue
            self.write_place(s2, fr, inst, t["dest"], rv, span)
            out.append(s2)
        return out

    def havoc_args(self, st, args):
        for a in args:
            d = G.ptr.get(a) if isinstance(a, int) else None
            if d and d[0] == "loc":
                write(st, d[1], None)

    def inline(self, st, callee, args, t):
        ctx = self.ctx
        nfr = next(G.frames)
        argc = callee["argc"]
        # rust-call ABI: closures receive their arguments untupled
        if len(args) != argc and len(args) == 2 and isinstance(args[1], Fields):
            tup = args[1]
            un = [args[0]]
            for i in range(argc - 1):
                sub = {p[1:]: a for p, a in tup.d.items() if p and p[0] == ("f", i)}
                if () in sub and len(sub) == 1:
                    un.append(sub[()])
                elif sub:
                    un.append(Fields(sub))
                else:
                    un.append(None)
            args = un
        elif len(args) != argc and len(args) == 2 and args[1] is None:
            args = [args[0]] + [None] * (argc - 1)
        for i, v in enumerate(args[:argc]):
            write(st, (nfr, i + 1), v)
        ctx.depth += 1
        try:
            exits = self.run_fn(callee, nfr, [st])
        finally:
            ctx.depth -= 1
        out = []
        for s2, rv in exits:
            # drop callee frame
            s2.env.drop_frame(nfr)
            if s2.ghost:
                for k in [k for k in s2.ghost if len(k) > 1 and k[1] == nfr]:
                    del s2.ghost[k]
            out.append((s2, rv))
        if len(out) > MAX_EXIT_STATES:
            out = self.reduce_exits(out, MAX_EXIT_STATES)
        return out

    def reduce_exits(self, exits, limit):
        """merge exit states: first those whose return values have identical abstract signatures, then the
        closest ones, until at most `limit` remain (keeps e.g. zero / infinity / declined results apart)"""
        tmpfr = next(G.frames)
        sigs = []
        for s, rv in exits:
            write(s, (tmpfr, 0), rv)
            sig = []
            for k, a in sorted(s.env.frame(tmpfr).items(), key=repr):
                if is_int(a):
                    sig.append((k[2:], s.get_iv(a)))
                elif a in G.obj and G.obj[a][0] == "iter":
                    sig.append((k[2:], self.summ.iter_flags(s, G.obj[a])))
            sigs.append(tuple(sig))
        groups = {}
        for (s, _rv), sig in zip(exits, sigs):
            if sig in groups:
                groups[sig] = join_states(groups[sig], s)
            else:
                groups[sig] = s
        items = sorted(groups.items(), key=lambda kv: repr(kv[0]))

        def dist(x, y):
            dx, dy = dict(x), dict(y)
            d = 0
            for k in set(dx) | set(dy):
                u, v = dx.get(k), dy.get(k)
                if u is None or v is None:
                    d += 4
                elif u != v:
                    # flag-like differences (two different values out of {0, 1}) keep states apart as long as possible
                    su = isinstance(u, tuple) and len(u) == 2 and u[0] == u[1] and u[0] in (0, 1)
                    sv = isinstance(v, tuple) and len(v) == 2 and v[0] == v[1] and v[0] in (0, 1)
                    if su and sv:
                        d += 1000
                    elif isinstance(u, tuple) and isinstance(v, tuple) and len(u) == 2 and len(v) == 2 and type(u[0]) is int and type(v[0]) is int and (u[1] < v[0] or v[1] < u[0]):
                        d += 5        # disjoint ranges
                    else:
                        d += 1
            return d
        while len(items) > limit:
            best = None
            for i in range(len(items)):
                for j in range(i + 1, len(items)):
                    dd = dist(items[i][0], items[j][0])
                    if best is None or dd < best[0]:
                        best = (dd, i, j)
            _, i, j = best
            js = join_states(items[i][1], items[j][1])
            sig = []
            for k, a in sorted(js.env.frame(tmpfr).items(), key=repr):
                if is_int(a):
                    sig.append((k[2:], js.get_iv(a)))
            items = [it for n, it in enumerate(items) if n not in (i, j)] + [(tuple(sig), js)]
            self.ctx.notes["exit-state merges"] += 1
        out = []
        for _sig, s in items:
            rv = self.load_lv(s, ("key", (tmpfr, 0)), None)
            rv = snapshot(s, rv)
            s.env.drop_frame(tmpfr)
            out.append((s, rv))
        return out
