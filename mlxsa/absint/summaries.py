"""Summaries of `core`/`std` leaves, intrinsics, slice iterators and raw-memory primitives.

Each summary states the result range, the panic condition (an obligation), and the
memory effect.  A callee without a summary is inlined from its own MIR; a callee
with neither is `unmodelled` (an unproven obligation, never silently accepted).
"""
from .domain import G, INF, trange, new_int, const_int, new_ptr, new_obj, new_top, is_int
from ..effects import nz

A1_BOUND = 1 << 62


def _F():
    from .engine import Fields
    return Fields


def some(val):
    Fields = _F()
    d = {("discr",): const_int(1)}
    if isinstance(val, Fields):
        for p, x in val.d.items():
            d[(("v", 1), ("f", 0)) + p] = x
    elif val is not None:
        d[(("v", 1), ("f", 0))] = val
    return Fields(d)


def none():
    return _F()({("discr",): const_int(0)})


class Summaries:
    def __init__(self, interp):
        self.I = interp
        self.ctx = interp.ctx
        self.exact = {}
        self.suffix = []
        self._register()

    # iterator object: ("iter", region, remaining, pos0 ("y"|"n"|None), rev ("y"|"n"), lineage)
    # lineage: ("L", n) identifies one iterator value through moves and `next` calls; clone() starts a new lineage.
    # st.ghost[("exh", lineage)] is set when that lineage is known to be exhausted (next returned None, or count() consumed it)
    def iter_flags(self, st, o):
        rem = o[2]
        ex = None
        if is_int(rem):
            r = st.get_iv(rem)
            if r[1] == 0:
                ex = True
        return (o[3], ex)

    def _register(self):
        E = self.exact
        for p in ("core::slice::<impl [T]>::iter", "core::slice::<impl [T]>::iter_mut",
                  "core::slice::iter::<impl core::iter::IntoIterator for &'a [T]>::into_iter",
                  "core::slice::iter::<impl core::iter::IntoIterator for &'a mut [T]>::into_iter"):
            E[p] = self.slice_iter
        E["core::slice::<impl [T]>::get"] = self.slice_get
        E["core::slice::<impl [T]>::get_mut"] = self.slice_get
        E["core::slice::<impl [T]>::first"] = self.slice_first
        E["core::slice::<impl [T]>::last"] = self.slice_first
        E["core::slice::<impl [T]>::get_unchecked"] = self.slice_get_unchecked
        E["core::slice::<impl [T]>::get_unchecked_mut"] = self.slice_get_unchecked
        E["core::slice::index::<impl core::ops::Index<I> for [T]>::index"] = self.slice_index
        E["core::slice::index::<impl core::ops::IndexMut<I> for [T]>::index_mut"] = self.slice_index
        E["core::array::<impl core::ops::Index<I> for [T; N]>::index"] = self.slice_index
        E["core::slice::from_raw_parts"] = self.from_raw_parts
        E["core::slice::from_raw_parts_mut"] = self.from_raw_parts
        E["core::ptr::copy"] = self.ptr_copy
        E["core::ptr::copy_nonoverlapping"] = self.ptr_copy
        E["core::intrinsics::copy"] = self.ptr_copy
        E["core::intrinsics::copy_nonoverlapping"] = self.ptr_copy
        E["core::ptr::write_bytes"] = self.write_bytes
        E["core::intrinsics::write_bytes"] = self.write_bytes
        for it in ("core::slice::Iter<'a, T>", "core::slice::IterMut<'a, T>", "core::slice::Iter<'_, T>", "core::slice::IterMut<'_, T>"):
            E["<%s as core::iter::Iterator>::next" % it] = self.iter_next
            E["<%s as core::iter::DoubleEndedIterator>::next_back" % it] = self.iter_next_back
            E["<%s as core::iter::Iterator>::count" % it] = self.iter_count
            E["<%s as core::clone::Clone>::clone" % it] = self.iter_clone
            E["<%s as core::iter::Iterator>::nth" % it] = self.iter_nth
            E["<%s as core::iter::Iterator>::size_hint" % it] = self.iter_size_hint
            E["<%s as core::iter::ExactSizeIterator>::len" % it] = self.iter_len
            E["<%s as core::iter::Iterator>::find" % it] = self.iter_find
            E["<%s as core::iter::Iterator>::position" % it] = self.iter_position
            E["<%s as core::iter::Iterator>::rposition" % it] = self.iter_position
        E["<core::iter::Enumerate<I> as core::iter::Iterator>::next"] = self.enumerate_assume
        E["<core::iter::Enumerate<I> as core::iter::Iterator>::nth"] = self.enumerate_assume
        E["core::iter::Iterator::zip"] = self.zip_new
        E["<core::iter::Zip<A, B> as core::iter::Iterator>::next"] = self.iter_next
        # from the back: same abstract effect (one pair less, or None); the zipped slices have equal remaining counts only
        # as far as `min` says, which is all the abstraction keeps
        E["<core::iter::Zip<A, B> as core::iter::DoubleEndedIterator>::next_back"] = self.iter_next
        E["core::iter::Iterator::any"] = self.iter_any
        E["core::iter::Iterator::position"] = self.iter_position
        E["core::iter::Iterator::rposition"] = self.iter_position
        E["core::iter::Iterator::count"] = self.generic_count
        E["<core::iter::Skip<I> as core::iter::Iterator>::next"] = self.skip_next
        E["core::iter::range::<impl core::iter::Iterator for core::ops::Range<A>>::next"] = self.range_next
        E["core::cmp::Ord::min"] = self.ord_min
        E["core::cmp::Ord::max"] = self.ord_max
        E["core::cmp::min"] = self.ord_min
        E["core::cmp::max"] = self.ord_max
        for t in ("u8", "u16", "u32", "u64", "u128", "usize", "i8", "i16", "i32", "i64", "i128", "isize"):
            E["core::num::<impl %s>::leading_zeros" % t] = self.leading_zeros
            E["core::num::<impl %s>::pow" % t] = self.int_pow
            E["core::num::<impl %s>::saturating_add" % t] = self.saturating
            E["core::num::<impl %s>::saturating_sub" % t] = self.saturating
        E["core::f32::<impl f32>::powf"] = self.float_top
        E["core::f64::<impl f64>::powf"] = self.float_top
        E["core::char::methods::<impl char>::to_digit"] = self.to_digit
        for vp in ("core::vec::Vec::<T, A>::", "core::vec::Vec::<T>::"):
            E[vp + "with_capacity"] = self.vec_with_capacity
            E[vp + "new"] = self.vec_with_capacity
            E[vp + "len"] = self.vec_len
            E[vp + "capacity"] = self.vec_capacity
            E[vp + "push"] = self.vec_push
            E[vp + "pop"] = self.vec_pop
            E[vp + "extend_from_slice"] = self.vec_extend
            E[vp + "resize"] = self.vec_resize
            E[vp + "set_len"] = self.vec_set_len
            E[vp + "truncate"] = self.vec_truncate
            E[vp + "clear"] = self.vec_clear
            E[vp + "as_ptr"] = self.vec_as_ptr
            E[vp + "as_mut_ptr"] = self.vec_as_ptr
            E[vp + "as_slice"] = self.vec_deref
            E[vp + "as_mut_slice"] = self.vec_deref
        E["<core::vec::Vec<T, A> as core::ops::Deref>::deref"] = self.vec_deref
        E["<core::vec::Vec<T, A> as core::ops::DerefMut>::deref_mut"] = self.vec_deref
        E["<core::vec::Vec<T, A> as core::clone::Clone>::clone"] = self.vec_clone
        for t_ in ("u8", "u16", "u32", "u64", "u128", "usize"):
            E["core::num::<impl %s>::wrapping_sub" % t_] = self.nowrap_probe
            E["core::num::<impl %s>::wrapping_add" % t_] = self.nowrap_probe
            E["core::num::<impl %s>::wrapping_mul" % t_] = self.nowrap_probe
        E["core::hint::must_use"] = self.identity
        E["core::hint::black_box"] = self.identity
        E["core::mem::MaybeUninit::<T>::uninit"] = self.uninit
        # intrinsics
        E["core::intrinsics::saturating_add"] = self.saturating
        E["core::intrinsics::saturating_sub"] = self.saturating
        E["core::intrinsics::ctlz"] = self.leading_zeros
        E["core::intrinsics::ctlz_nonzero"] = self.leading_zeros
        E["core::intrinsics::cold_path"] = self.unit
        E["core::intrinsics::is_val_statically_known"] = self.const_false
        E["core::intrinsics::ptr_offset_from_unsigned"] = self.usize_top
        E["core::intrinsics::assume"] = self.unit
        E["core::intrinsics::compare_bytes"] = self.i32_top
        self.suffix.append(("::precondition_check", self.unit))
        self.prefix = [("core::arch::x86_64::_mm_", self.pure_top), ("core::core_arch::x86::", self.pure_top)]

    def apply(self, st, fr, inst, t, callee, args):
        p = nz(callee["path"])
        h = self.exact.get(p)
        if h is None:
            for suf, hh in self.suffix:
                if p.endswith(suf):
                    h = hh
                    break
        if h is None:
            for pre, hh in getattr(self, "prefix", []):
                if p.startswith(pre):
                    h = hh
                    break
        if h is None and self.ctx.model == "valid" and callee["dpath"] in ("minimal_lexical::libm::powf", "minimal_lexical::libm::powd"):
            # assumption A6: the bundled libm pow is total and non-panicking on (10.0, 0..=22), like std's powf;
            # its unsafe indexing is still analysed in the arbitrary-byte model (C08)
            self.ctx.notes["A6: bundled libm pow treated as a total function"] += 1
            h = self.float_top
        if h is None:
            return None
        return h(st, fr, inst, t, callee, args)

    # -- helpers -------------------------------------------------------------------
    def span(self, t):
        return t.get("span") or {}

    def slice_of(self, a):
        d = G.ptr.get(a) if isinstance(a, int) else None
        if d and d[0] == "slice":
            return d
        return None

    def elem_ptr(self, region, ety=None, first=None):
        v = None
        if region and region[0] == "ext" and region[2] is not None:
            m = region[2]
            if first is True and len(region) > 3 and region[3] is not None:
                m = region[3]
            elif first is None and len(region) > 3 and region[3] is not None:
                m = (min(m[0], region[3][0]), max(m[1], region[3][1]))
            v = new_int(m[0], m[1])
        elif region and region[0] == "const" and region[3] is not None:
            v = new_int(region[3][0], region[3][1])
        elif region and region[0] == "static":
            return new_ptr(("staticelem", region[1]))
        return new_ptr(("val", v))

    # -- slices --------------------------------------------------------------------
    def slice_iter(self, st, fr, inst, t, callee, args):
        d = self.slice_of(args[0])
        if d is None:
            ln = new_int(0, A1_BOUND)
            region = ("ext", "unknown", None)
            pos0 = None
        else:
            ln = d[3]
            region = d[1]
            off = d[2]
            pos0 = "y" if (is_int(off) and st.get_iv(off) == (0, 0)) else None
        # lineage = creation site (frame + call span), so that the same `.iter()` reached by two disjuncts joins
        o = new_obj(("iter", region, ln, pos0, "n", ("L", (fr, self.span(t).get("loc", "")))))
        return [(st, o)]

    def iter_obj(self, st, a):
        """iterator object behind a `&mut Iter` / by-value argument"""
        if isinstance(a, int):
            if a in G.obj:
                return a, None
            d = G.ptr.get(a)
            if d and d[0] == "loc":
                x = st.env.get(d[1])
                if isinstance(x, int) and x in G.obj:
                    return x, d[1]
                # `&mut &mut Iter`
                dd = G.ptr.get(x) if isinstance(x, int) else None
                if dd and dd[0] == "loc":
                    y = st.env.get(dd[1])
                    if isinstance(y, int) and y in G.obj:
                        return y, dd[1]
        return None, None

    def iter_next(self, st, fr, inst, t, callee, args, back=False):
        oa, key = self.iter_obj(st, args[0])
        if oa is None or G.obj[oa][0] != "iter" or key is None:
            self.ctx.oblige("unmodelled-call", False, inst, self.span(t), "iterator `next` on an untracked iterator value")
            return [(st, _F()({("discr",): new_int(0, 1)}))]
        _, region, rem, pos0, rev, lin = G.obj[oa]
        out = []
        R = st.get_iv(rem)
        # None: nothing left
        if R[0] <= 0:
            s0 = st.copy()
            if s0.set_iv(rem, 0, 0):
                s0.ghost[("exh", lin)] = const_int(1)
                out.append((s0, none()))
        # Some: at least one left
        if R[1] >= 1:
            s1 = st
            if s1.set_iv(rem, max(R[0], 1), R[1]):
                rem2 = self.I.addc(s1, rem, -1)
                isrev = back or rev == "y"
                if isrev:
                    # an element taken from the back is the first element only if it is the last one left
                    first = False if pos0 == "n" else None
                elif pos0 == "y":
                    first = True
                elif pos0 == "n":
                    first = False
                else:
                    first = None
                ep = self.elem_ptr(region, first=first)
                if region and region[0] == "zip":
                    ep = None
                if ep is not None and region and region[0] == "ext":
                    dv = G.ptr.get(ep)
                    if dv and dv[0] == "val" and is_int(dv[1]):
                        s1.ghost[("last_input_byte",)] = dv[1]     # the input byte this path read last (later tests on it refine it)
                s1.env[key] = new_obj(("iter", region, rem2, pos0 if isrev else "n", rev, lin))
                if ep is None:
                    out.append((s1, _F()({("discr",): const_int(1)})))
                else:
                    out.append((s1, some(ep)))
        return out

    def iter_next_back(self, st, fr, inst, t, callee, args):
        return self.iter_next(st, fr, inst, t, callee, args, back=True)

    def iter_nth(self, st, fr, inst, t, callee, args):
        oa, key = self.iter_obj(st, args[0])
        if oa is None or key is None:
            return None
        _, region, rem, pos0, rev, lin = G.obj[oa]
        R = st.get_iv(rem)
        out = []
        s0 = st.copy()
        s0.env[key] = new_obj(("iter", region, const_int(0), "n", rev, lin))
        s0.ghost[("exh", lin)] = const_int(1)
        out.append((s0, none()))
        if R[1] >= 1:
            r2 = new_int(0, R[1] - 1)
            st.add_fact(r2, rem, -1)
            st.env[key] = new_obj(("iter", region, r2, "n", rev, lin))
            out.append((st, some(self.elem_ptr(region, first=None))))
        return out

    def iter_count(self, st, fr, inst, t, callee, args):
        oa, key = self.iter_obj(st, args[0])
        if oa is None:
            return None
        st.ghost[("exh", G.obj[oa][5])] = const_int(1)       # count() consumes the iterator
        return [(st, G.obj[oa][2])]

    def iter_len(self, st, fr, inst, t, callee, args):
        return self.iter_count(st, fr, inst, t, callee, args)

    def iter_size_hint(self, st, fr, inst, t, callee, args):
        r = self.iter_count(st, fr, inst, t, callee, args)
        if r is None:
            return None
        s, n = r[0]
        return [(s, _F()({(("f", 0),): n, (("f", 1), "discr"): const_int(1), (("f", 1), ("v", 1), ("f", 0)): n}))]

    def iter_clone(self, st, fr, inst, t, callee, args):
        oa, key = self.iter_obj(st, args[0])
        if oa is None:
            return None
        o = G.obj[oa]
        # a clone starts a new lineage that remembers its parent
        return [(st, new_obj(o[:5] + (("L", (fr, self.span(t).get("loc", ""))) + (o[5],),)))]

    def enumerate_assume(self, st, fr, inst, t, callee, args):
        """assumption A1 (an iterator yields fewer than 2^62 items): Enumerate's running index is below 2^62.
        Not a summary: the body is still inlined from its own MIR."""
        d = G.ptr.get(args[0]) if type(args[0]) is int else None
        if d and d[0] == "loc":
            ck = d[1] + (("f", 1),)
            c = st.env.get(ck)
            if is_int(c):
                if not st.set_iv(c, 0, A1_BOUND - 1):
                    return []
        return None

    def zip_new(self, st, fr, inst, t, callee, args):
        def inner(v):
            from .engine import Fields
            if isinstance(v, int) and v in G.obj:
                return G.obj[v]
            if isinstance(v, Fields):
                for p, x in v.d.items():
                    if isinstance(x, int) and x in G.obj and G.obj[x][0] == "iter":
                        return G.obj[x]
            return None
        a, b = inner(args[0]), inner(args[1])
        if a is None or b is None:
            return None
        ra, rb = a[2], b[2]
        A, B = st.get_iv(ra), st.get_iv(rb)
        m = new_int(min(A[0], B[0]), min(A[1], B[1]), ("min", ra, rb))
        return [(st, new_obj(("iter", ("zip",), m, None, "n", ("L", (fr, self.span(t).get("loc", ""))))))]

    def iter_any(self, st, fr, inst, t, callee, args):
        # Iterator::any(&mut self, f): pure predicate closures only (no captures)
        from .engine import Fields
        f = args[1] if len(args) > 1 else None
        if f is not None and not (isinstance(f, Fields) and not f.d):
            return None
        oa, key = self.iter_obj(st, args[0])
        if oa is None:
            # adaptor struct (e.g. Rev<Iter>) behind the reference: consume an unknown part of the inner iterator
            d = G.ptr.get(args[0]) if isinstance(args[0], int) else None
            if not d or d[0] != "loc":
                return None
            found = [(k, a) for k, a in st.env.items() if k[:len(d[1])] == d[1] and isinstance(a, int) and a in G.obj and G.obj[a][0] == "iter"]
            if len(found) != 1:
                return None
            key, oa = found[0]
        if key is not None:
            _, region, rem, pos0, rev, lin = G.obj[oa]
            R = st.get_iv(rem)
            r2 = new_int(0, R[1])
            st.add_fact(r2, rem, 0)
            st.env[key] = new_obj(("iter", region, r2, None, rev, lin))
        return [(st, new_int(0, 1))]

    def iter_position(self, st, fr, inst, t, callee, args):
        """Iterator::position / rposition(&mut self, pred) on a slice iterator with a capture-free predicate: None, or Some(i) with
        0 <= i < remaining; the iterator is left with an unknown smaller remainder"""
        from .engine import Fields
        f = args[1] if len(args) > 1 else None
        if f is not None and not (isinstance(f, Fields) and not f.d):
            return None
        oa, key = self.iter_obj(st, args[0])
        if oa is None or key is None:
            return None
        _, region, rem, pos0, rev, lin = G.obj[oa]
        R = st.get_iv(rem)
        out = []
        s0 = st.copy()
        s0.env[key] = new_obj(("iter", region, const_int(0), None, rev, lin))
        out.append((s0, none()))
        if R[1] >= 1 and st.set_iv(rem, max(R[0], 1), R[1]):
            i = new_int(0, R[1] - 1)
            st.add_fact(i, rem, -1)
            r2 = new_int(0, R[1] - 1)
            st.add_fact(r2, rem, -1)
            st.env[key] = new_obj(("iter", region, r2, None, rev, lin))
            out.append((st, some(i)))
        return out

    def iter_find(self, st, fr, inst, t, callee, args):
        """Iterator::find(&mut self, pred) on a slice iterator with a capture-free predicate: None (iterator exhausted) or Some(&element)
        with an unknown smaller remainder left"""
        from .engine import Fields
        f = args[1] if len(args) > 1 else None
        if f is not None and not (isinstance(f, Fields) and not f.d):
            return None
        oa, key = self.iter_obj(st, args[0])
        if oa is None or key is None:
            return None
        _, region, rem, pos0, rev, lin = G.obj[oa]
        R = st.get_iv(rem)
        out = []
        s0 = st.copy()
        s0.env[key] = new_obj(("iter", region, const_int(0), None, rev, lin))
        s0.ghost[("exh", lin)] = const_int(1)
        out.append((s0, none()))
        if R[1] >= 1 and st.set_iv(rem, max(R[0], 1), R[1]):
            r2 = new_int(0, R[1] - 1)
            st.add_fact(r2, rem, -1)
            st.env[key] = new_obj(("iter", region, r2, None, rev, lin))
            out.append((st, some(self.elem_ptr(region))))
        return out

    def generic_count(self, st, fr, inst, t, callee, args):
        """Iterator::count on adaptors over one slice iterator with pure predicate closures: 0 <= count <= remaining"""
        from .engine import Fields
        v = args[0]
        objs = []
        if isinstance(v, Fields):
            for p, x in v.d.items():
                if isinstance(x, int) and x in G.obj and G.obj[x][0] == "iter":
                    objs.append(G.obj[x])
                elif isinstance(x, int) and (x in G.ptr or x in G.obj):
                    return None      # closure captures / other iterators: not a pure adaptor
        elif isinstance(v, int) and v in G.obj and G.obj[v][0] == "iter":
            objs.append(G.obj[v])
        if len(objs) != 1:
            return None
        o = objs[0]
        rem = o[2]
        R = st.get_iv(rem)
        c = new_int(0, max(R[1], 0))
        st.add_fact(c, rem, 0)
        return [(st, c)]

    def skip_next(self, st, fr, inst, t, callee, args):
        return None

    def range_next(self, st, fr, inst, t, callee, args):
        d = G.ptr.get(args[0]) if isinstance(args[0], int) else None
        if not d or d[0] != "loc":
            return None
        ks, ke = d[1] + (("f", 0),), d[1] + (("f", 1),)
        s, e = st.env.get(ks), st.env.get(ke)
        if not (is_int(s) and is_int(e)):
            return None
        out = []
        s0 = st.copy()
        if s0.add_fact(e, s, 0):
            out.append((s0, none()))
        if st.add_fact(s, e, -1):
            st.env[ks] = self.I.addc(st, s, 1)
            out.append((st, some(s)))
        return out

    def slice_get(self, st, fr, inst, t, callee, args):
        d = self.slice_of(args[0])
        i = args[1]
        if d is None or not is_int(i):
            return None
        ln = d[3]
        out = []
        s0 = st.copy()
        if s0.add_fact(ln, i, 0):
            out.append((s0, none()))
        if st.add_fact(i, ln, -1):
            out.append((st, some(self.elem_ptr(d[1]))))
        return out

    def slice_first(self, st, fr, inst, t, callee, args):
        d = self.slice_of(args[0])
        if d is None:
            return None
        ln = d[3]
        out = []
        s0 = st.copy()
        if s0.set_iv(ln, 0, 0):
            out.append((s0, none()))
        L = st.get_iv(ln)
        if st.set_iv(ln, 1, L[1]):
            first = True if (is_int(d[2]) and st.get_iv(d[2]) == (0, 0)) and callee["path"].endswith("first") else None
            out.append((st, some(self.elem_ptr(d[1], first=first))))
        return out

    def slice_get_unchecked(self, st, fr, inst, t, callee, args):
        d = self.slice_of(args[0])
        i = args[1]
        ok = False
        detail = "untracked slice"
        if d is not None and is_int(i):
            ok = st.diff_le(i, d[3], -1) and st.get_iv(i)[0] >= 0
            detail = "index %s length %s" % (st.get_iv(i), st.get_iv(d[3]))
        self.ctx.oblige("get_unchecked-in-bounds", ok, inst, self.span(t), detail)
        return [(st, self.elem_ptr(d[1]) if d else new_top())]

    def slice_index(self, st, fr, inst, t, callee, args):
        from .engine import Fields
        a0 = args[0]
        d = self.slice_of(a0)
        if d is None:
            dd = G.ptr.get(a0) if isinstance(a0, int) else None
            if dd and dd[0] == "loc_const_array":
                d = ("slice", dd[1], const_int(0), const_int(dd[1][2]))
            elif dd and dd[0] == "loc":
                return None
            else:
                return None
        region, off, ln = d[1], d[2], d[3]
        idx = args[1]
        sp = self.span(t)
        ity = t["args"][1]
        ity = (ity.get("copy") or ity.get("move") or ity.get("const") or {}).get("ty", {})
        name = nz(ity.get("name", "")) if ity.get("k") == "adt" else ""
        if is_int(idx):
            ok = st.diff_le(idx, ln, -1)
            self.ctx.oblige("index-in-bounds", ok, inst, sp, "index %s length %s" % (st.get_iv(idx), st.get_iv(ln)))
            if not st.add_fact(idx, ln, -1):
                return []
            return [(st, self.elem_ptr(region))]
        if isinstance(idx, Fields) or idx is None:
            f = idx.d if idx is not None else {}
            s_, e_ = f.get((("f", 0),)), f.get((("f", 1),))
            if name.endswith("RangeFrom"):
                start, end = s_, ln
            elif name.endswith("RangeTo"):
                start, end = const_int(0), s_
            elif name.endswith("RangeFull"):
                return [(st, a0)]
            elif name.endswith("Range"):
                start, end = s_, e_
            else:
                return None
            if not (is_int(start) and is_int(end)):
                return None
            ok = st.diff_le(start, end, 0) and st.diff_le(end, ln, 0)
            self.ctx.oblige("range-index-in-bounds", ok, inst, sp,
                            "start %s end %s length %s" % (st.get_iv(start), st.get_iv(end), st.get_iv(ln)))
            if not (st.add_fact(start, end, 0) and st.add_fact(end, ln, 0)):
                return []
            E, S = st.get_iv(end), st.get_iv(start)
            if S == (0, 0):
                nl = end
            else:
                nl = new_int(max(E[0] - S[1], 0), max(E[1] - S[0], 0), ("sub", end, start))
            noff = self.I.sum_atom(st, off, start) if is_int(off) else None
            return [(st, new_ptr(("slice", region, noff, nl)))]
        return None

    def from_raw_parts(self, st, fr, inst, t, callee, args):
        p, n = args[0], args[1]
        d = G.ptr.get(p) if isinstance(p, int) else None
        sp = self.span(t)
        if d is None or d[0] != "buf" or not is_int(n):
            self.ctx.oblige("from_raw_parts-valid", False, inst, sp, "untracked pointer")
            return [(st, new_ptr(("slice", ("ext", "unknown", None), None, n if is_int(n) else new_int(0, A1_BOUND))))]
        region, off = d[1], d[2]
        end_hi = self.I.sum_hi(st, off, n)
        okc, cap = self.I.within_cap(st, region, self.I.sum_atom(st, off, n), end_hi)
        ok = okc and st.get_iv(off)[0] >= 0
        self.ctx.oblige("from_raw_parts-in-capacity", ok, inst, sp, "offset %s len %s capacity %s" % (st.get_iv(off), st.get_iv(n), cap))
        ik = self.I.buf_init_key(region)
        if ik is not None:
            init = st.env.get(ik)
            e = self.I.sum_atom(st, off, n)
            oki = init is not None and e is not None and st.diff_le(e, init, 0)
            self.ctx.oblige("from_raw_parts-initialised", oki, inst, sp,
                            "len %s initialised prefix %s" % (st.get_iv(n), st.get_iv(init) if init is not None else None))
        return [(st, new_ptr(("slice", region, off, n)))]

    def ptr_copy(self, st, fr, inst, t, callee, args):
        self.I.mem_copy(st, inst, self.span(t), args[0], args[1], args[2])
        return [(st, None)]

    def write_bytes(self, st, fr, inst, t, callee, args):
        dst, val, cnt = args[0], args[1], args[2]
        d = G.ptr.get(dst) if isinstance(dst, int) else None
        if d and d[0] == "buf":
            self.I.raw_access(st, inst, self.span(t), ("bufelem", d[1], d[2], True), write=True, count=cnt)
        else:
            self.ctx.oblige("raw-write-in-capacity", False, inst, self.span(t), "write_bytes to an untracked destination")
            st.ghost.pop(("pristine",), None)
        return [(st, None)]

    # -- alloc::vec::Vec<Limb> (heap back-end) -----------------------------------------
    # A Vec value is the cell group  K: obj("vec"),  K+g.vlen: length,  K+g.vcap: capacity,  K+g.init: initialised prefix of its
    # buffer (a lower bound; INV: vlen <= init <= vcap).  Pointers into the buffer use the region ("heap", K).  A growth that may
    # reallocate gets a fresh capacity atom (>= old capacity, >= new length) and forgets initialisation beyond the new length.
    # Not modelled: raw pointers into the old buffer kept across a reallocating call (the borrow checker rules this out for references).
    VL, VC, VI = (("g", "vlen"),), (("g", "vcap"),), (("g", "init"),)

    def vec_key(self, st, p):
        d = G.ptr.get(p) if type(p) is int else None
        if d and d[0] == "loc" and is_int(st.env.get(tuple(d[1]) + self.VL)):
            return tuple(d[1])
        return None

    def vec_value(self, ln, cap, init):
        from .engine import Fields
        return Fields({(): new_obj(("vec",)), self.VL: ln, self.VC: cap, self.VI: init})

    def vec_untracked(self, st, inst, t, what):
        self.ctx.oblige("unmodelled-call", False, inst, self.span(t), "Vec::%s on a vector the engine does not track" % what)
        return None

    def vec_with_capacity(self, st, fr, inst, t, callee, args):
        n = args[0] if args and is_int(args[0]) else const_int(0)
        N = st.get_iv(n)
        cap = new_int(max(N[0], 0), A1_BOUND)
        st.add_fact(n, cap, 0)
        return [(st, self.vec_value(const_int(0), cap, const_int(0)))]

    def vec_len(self, st, fr, inst, t, callee, args):
        K = self.vec_key(st, args[0])
        if K is None:
            self.vec_untracked(st, inst, t, "len")
            return [(st, new_int(0, A1_BOUND))]
        return [(st, st.env[K + self.VL])]

    def vec_capacity(self, st, fr, inst, t, callee, args):
        K = self.vec_key(st, args[0])
        if K is None:
            self.vec_untracked(st, inst, t, "capacity")
            return [(st, new_int(0, A1_BOUND))]
        return [(st, st.env[K + self.VC])]

    def _vec_grow(self, st, K, new_len):
        """length becomes new_len (>= old length) through a safe growing call"""
        cap, init = st.env[K + self.VC], st.env[K + self.VI]
        st.ghost.pop(("pristine",), None)
        if st.diff_le(new_len, cap, 0):
            # fits: no reallocation; the written slots extend the initialised prefix if they start inside it
            if not st.diff_le(new_len, init, 0):
                st.env[K + self.VI] = new_len
        else:
            L, C = st.get_iv(new_len), st.get_iv(cap)
            c2 = new_int(max(L[0], C[0]), A1_BOUND)
            st.add_fact(cap, c2, 0)
            st.add_fact(new_len, c2, 0)
            st.env[K + self.VC] = c2
            st.env[K + self.VI] = new_len
        st.env[K + self.VL] = new_len

    def vec_push(self, st, fr, inst, t, callee, args):
        K = self.vec_key(st, args[0])
        if K is None:
            self.vec_untracked(st, inst, t, "push")
            return [(st, None)]
        ln = st.env[K + self.VL]
        self._vec_grow(st, K, self.I.addc(st, ln, 1))
        return [(st, None)]

    def vec_extend(self, st, fr, inst, t, callee, args):
        K = self.vec_key(st, args[0])
        sl = self.slice_of(args[1])
        if K is None or sl is None or not is_int(sl[3]):
            self.vec_untracked(st, inst, t, "extend_from_slice")
            return [(st, None)]
        ln = st.env[K + self.VL]
        nl = self.I.sum_atom(st, ln, sl[3])
        if nl is None:
            a, b = st.get_iv(ln), st.get_iv(sl[3])
            nl = new_int(a[0] + b[0], a[1] + b[1])
        self._vec_grow(st, K, nl)
        return [(st, None)]

    def vec_resize(self, st, fr, inst, t, callee, args):
        K = self.vec_key(st, args[0])
        n = args[1]
        if K is None or not is_int(n):
            self.vec_untracked(st, inst, t, "resize")
            return [(st, None)]
        ln = st.env[K + self.VL]
        if st.diff_le(n, ln, 0):
            st.ghost.pop(("pristine",), None)
            st.env[K + self.VL] = n          # truncation: buffer and initialisation unchanged
            return [(st, None)]
        out = []
        # may shrink or grow: split
        s1 = st.copy()
        if s1.add_fact(n, ln, 0):
            s1.ghost.pop(("pristine",), None)
            s1.env[K + self.VL] = n
            out.append((s1, None))
        if st.add_fact(ln, n, -1):
            self._vec_grow(st, K, n)
            out.append((st, None))
        return out

    def vec_truncate(self, st, fr, inst, t, callee, args):
        """Vec::truncate(n): len = min(len, n); buffer, capacity and initialised prefix unchanged"""
        K = self.vec_key(st, args[0])
        n = args[1]
        if K is None or not is_int(n):
            self.vec_untracked(st, inst, t, "truncate")
            return [(st, None)]
        ln = st.env[K + self.VL]
        out = []
        s1 = st.copy()
        if s1.add_fact(n, ln, -1):           # n < len: shortened
            s1.ghost.pop(("pristine",), None)
            s1.env[K + self.VL] = n
            out.append((s1, None))
        if st.add_fact(ln, n, 0):            # len <= n: no effect
            out.append((st, None))
        return out

    def vec_clear(self, st, fr, inst, t, callee, args):
        K = self.vec_key(st, args[0])
        if K is None:
            self.vec_untracked(st, inst, t, "clear")
            return [(st, None)]
        st.ghost.pop(("pristine",), None)
        st.env[K + self.VL] = const_int(0)
        return [(st, None)]

    def vec_pop(self, st, fr, inst, t, callee, args):
        from .engine import Fields
        K = self.vec_key(st, args[0])
        if K is None:
            self.vec_untracked(st, inst, t, "pop")
            return [(st, Fields({("discr",): new_int(0, 1)}))]
        ln = st.env[K + self.VL]
        out = []
        s0 = st.copy()
        if s0.set_iv(ln, 0, 0):
            out.append((s0, Fields({("discr",): const_int(0)})))
        if st.set_iv(ln, 1, st.get_iv(ln)[1]):
            st.ghost.pop(("pristine",), None)
            st.env[K + self.VL] = self.I.addc(st, ln, -1)
            ety = callee["locals"][0]
            out.append((st, Fields({("discr",): const_int(1), (("v", 1), ("f", 0)): new_int(0, (1 << 64) - 1)})))
        return out

    def vec_set_len(self, st, fr, inst, t, callee, args):
        K = self.vec_key(st, args[0])
        n = args[1]
        if K is None or not is_int(n):
            self.vec_untracked(st, inst, t, "set_len")
            return [(st, None)]
        cap, init = st.env[K + self.VC], st.env[K + self.VI]
        N = st.get_iv(n)
        okc = N[1] <= st.get_iv(cap)[0] or st.diff_le(n, cap, 0)
        oki = N[1] <= st.get_iv(init)[0] or st.diff_le(n, init, 0)
        self.ctx.oblige("raw-set_len-in-capacity", okc, inst, self.span(t), "new length %s capacity %s" % (N, st.get_iv(cap)))
        self.ctx.oblige("raw-set_len-initialised", oki, inst, self.span(t), "new length %s initialised prefix %s" % (N, st.get_iv(init)))
        st.ghost.pop(("pristine",), None)
        st.env[K + self.VL] = n
        return [(st, None)]

    def vec_deref(self, st, fr, inst, t, callee, args):
        K = self.vec_key(st, args[0])
        if K is None:
            self.vec_untracked(st, inst, t, "deref")
            return [(st, new_ptr(("slice", ("ext", "untracked-vec", None), const_int(0), new_int(0, A1_BOUND))))]
        return [(st, new_ptr(("slice", ("heap", K), const_int(0), st.env[K + self.VL])))]

    def vec_as_ptr(self, st, fr, inst, t, callee, args):
        K = self.vec_key(st, args[0])
        if K is None:
            self.vec_untracked(st, inst, t, "as_ptr")
            return [(st, new_top())]
        return [(st, new_ptr(("buf", ("heap", K), const_int(0))))]

    def vec_clone(self, st, fr, inst, t, callee, args):
        K = self.vec_key(st, args[0])
        if K is None:
            self.vec_untracked(st, inst, t, "clone")
            ln = new_int(0, A1_BOUND)
        else:
            ln = st.env[K + self.VL]
        L = st.get_iv(ln)
        cap = new_int(L[0], A1_BOUND)
        st.add_fact(ln, cap, 0)
        return [(st, self.vec_value(ln, cap, ln))]

    def nowrap_probe(self, st, fr, inst, t, callee, args):
        """not a summary: inside the functions of audit/contracts.py NOWRAP_CALLERS an unsigned wrapping_add / wrapping_sub must provably not
        wrap (obligation `wrap-free`); the call itself is then analysed from its own MIR as usual"""
        from audit.contracts import NOWRAP_CALLERS
        from audit.roles import canonical
        why = NOWRAP_CALLERS.get(canonical(self.ctx.facts, inst.get("dpath")))
        if why is not None and len(args) == 2 and is_int(args[0]) and is_int(args[1]):
            a, b = args
            A, B = st.get_iv(a), st.get_iv(b)
            bits = callee["locals"][0].get("bits", 64)
            if callee["path"].endswith("wrapping_sub"):
                ok = A[0] - B[1] >= 0 or st.diff_le(b, a, 0)
            elif callee["path"].endswith("wrapping_mul"):
                ok = A[1] * B[1] < (1 << bits)
            else:
                ok = A[1] + B[1] < (1 << bits)
            self.ctx.oblige("wrap-free: %s" % callee["path"].rsplit("::", 1)[-1], ok, inst, self.span(t), "operands %s and %s; %s" % (A, B, why))
        return None

    # -- integers ------------------------------------------------------------------
    def ret_ty(self, t):
        return t["dest"]["ty"]

    def leading_zeros(self, st, fr, inst, t, callee, args):
        a = args[0]
        aty = t["args"][0]
        aty = (aty.get("copy") or aty.get("move") or aty.get("const"))["ty"]
        bits = aty.get("bits", 64)
        if not is_int(a):
            return [(st, new_int(0, bits))]
        A = st.get_iv(a)
        k = ("clz", a, bits)
        r = G.cons.get(k)
        if r is None:
            r = G.cons[k] = new_int(0, bits, ("clz", a))
        if A[0] >= 0:
            st.set_iv(r, bits - A[1].bit_length(), bits - A[0].bit_length())
        return [(st, r)]

    def int_pow(self, st, fr, inst, t, callee, args):
        b, e = args[0], args[1]
        rty = self.ret_ty(t)
        tr = trange(rty)
        sp = self.span(t)
        if not (is_int(b) and is_int(e)):
            self.ctx.oblige("pow-no-overflow", False, inst, sp, "operands not tracked")
            return [(st, new_int(*tr))]
        B, E = st.get_iv(b), st.get_iv(e)
        ok = B[0] >= 0 and E[0] >= 0 and E[1] < 4096 and B[1] ** E[1] <= tr[1]
        self.ctx.oblige("pow-no-overflow", ok, inst, sp, "base %s exponent %s" % (B, E))
        if ok:
            return [(st, new_int(B[0] ** E[0], B[1] ** E[1], ("pow", b, e)))]
        return [(st, new_int(*tr))]

    def saturating(self, st, fr, inst, t, callee, args):
        a, b = args[0], args[1]
        rty = self.ret_ty(t)
        tr = trange(rty)
        if not (is_int(a) and is_int(b)):
            return [(st, new_int(*tr))]
        A, B = st.get_iv(a), st.get_iv(b)
        sub = callee["path"].endswith("_sub")
        lo, hi = (A[0] - B[1], A[1] - B[0]) if sub else (A[0] + B[0], A[1] + B[1])
        if lo >= tr[0] and hi <= tr[1]:
            r = self.I.diff_atom(st, a, b, lo, hi) if sub else self.I.sum_atom(st, a, b)
            return [(st, r)]
        return [(st, new_int(max(lo, tr[0]), min(hi, tr[1])))]

    def ord_min(self, st, fr, inst, t, callee, args):
        a, b = args[0], args[1]
        if not (is_int(a) and is_int(b)):
            return None
        A, B = st.get_iv(a), st.get_iv(b)
        m = new_int(min(A[0], B[0]), min(A[1], B[1]), ("min", a, b))
        st.add_fact(m, a, 0)
        st.add_fact(m, b, 0)
        return [(st, m)]

    def ord_max(self, st, fr, inst, t, callee, args):
        a, b = args[0], args[1]
        if not (is_int(a) and is_int(b)):
            return None
        A, B = st.get_iv(a), st.get_iv(b)
        m = new_int(max(A[0], B[0]), max(A[1], B[1]))
        st.add_fact(a, m, 0)
        st.add_fact(b, m, 0)
        return [(st, m)]

    def to_digit(self, st, fr, inst, t, callee, args):
        # char::to_digit(c, radix): Some(d) with d < radix, or None
        c, radix = args[0], args[1]
        R = st.get_iv(radix) if is_int(radix) else (2, 36)
        s0 = st.copy()
        out = [(s0, none())]
        out.append((st, some(new_int(0, max(R[1] - 1, 0)))))
        return out

    def pure_top(self, st, fr, inst, t, callee, args):
        """SIMD value intrinsics: pure functions of their (by-value) arguments"""
        from .engine import fresh_of_type
        return [(st, fresh_of_type(t["dest"]["ty"]))]

    def float_top(self, st, fr, inst, t, callee, args):
        return [(st, new_top())]

    def identity(self, st, fr, inst, t, callee, args):
        return [(st, args[0] if args else None)]

    def uninit(self, st, fr, inst, t, callee, args):
        return [(st, new_obj(("uninit",)))]

    def unit(self, st, fr, inst, t, callee, args):
        return [(st, None)]

    def const_false(self, st, fr, inst, t, callee, args):
        return [(st, const_int(0))]

    def usize_top(self, st, fr, inst, t, callee, args):
        return [(st, new_int(0, A1_BOUND))]

    def i32_top(self, st, fr, inst, t, callee, args):
        return [(st, new_int(-(1 << 31), (1 << 31) - 1))]
