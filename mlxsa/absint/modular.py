"""Modular (assume/guarantee) treatment of the big-integer layer.

Functions listed in /verif/audit/contracts.py are analysed once, standalone, from *every* input that
satisfies the vector representation invariant INV and the listed argument preconditions.  At a call
site the engine (1) checks the precondition and INV of the actual arguments, (2) re-establishes INV on
`&mut` vector arguments (their new contents are unknown), (3) returns the hull of the standalone exits.
"""
import os
import sys

from .domain import G, St, new_int, const_int, new_ptr, new_obj, new_top, is_int, trange

sys.path.insert(0, os.path.dirname(os.path.dirname(os.path.dirname(os.path.abspath(__file__)))))
from audit.contracts import contract_for  # noqa: E402


VL, VC, VI = (("g", "vlen"),), (("g", "vcap"),), (("g", "init"),)
HEAP_MAX = 1 << 60          # a Vec<u64> cannot hold more than isize::MAX / 8 elements


def heap_inv(st, K, lo=0):
    """INV of the heap back-end at the Vec cell K: 0 <= length <= initialised prefix <= capacity <= 2^60"""
    ln, init, cap = new_int(lo, HEAP_MAX), new_int(lo, HEAP_MAX), new_int(lo, HEAP_MAX)
    st.env[K] = new_obj(("vec",))
    st.env[K + VL], st.env[K + VI], st.env[K + VC] = ln, init, cap
    st.add_fact(ln, init, 0)
    st.add_fact(init, cap, 0)
    return ln


def is_vec_ty(ty):
    n = ty.get("name", "") if ty.get("k") == "adt" else ""
    return n.endswith("stackvec::StackVec") or n.endswith("heapvec::HeapVec")


def is_bigint_ty(ty):
    return ty.get("k") == "adt" and ty.get("name", "").endswith("bigint::Bigint")


class Modular:
    def __init__(self, interp):
        self.I = interp
        self.ctx = interp.ctx
        self.cache = {}
        self.active = set()
        self.cap = self.ctx.facts.const_int("bigint::BIGINT_LIMBS")
        self.heap = "alloc" in self.ctx.facts.config

    def contract(self, callee):
        if callee["krate"] != "minimal_lexical" or "blocks" not in callee:
            return None
        if callee["id"] in self.active:
            return None
        return contract_for(callee["dpath"])

    # -- INV --------------------------------------------------------------------------
    def vec_keys(self, ty, key):
        """locations of vectors inside a value of type `ty` stored at `key`"""
        if is_vec_ty(ty):
            return [key]
        if is_bigint_ty(ty):
            return [key + (("f", 0),)]
        return []

    def establish_inv(self, st, vkey, lo=0, hi=None):
        from .engine import write
        hi = self.cap if hi is None else hi
        if self.heap:
            write(st, vkey, None)
            return heap_inv(st, vkey + (("f", 0),), lo)
        ln = new_int(lo, hi)
        write(st, vkey, None)
        st.env[vkey + (("f", 0),)] = new_obj(("array", ("n", self.cap)))
        st.env[vkey + (("f", 0), ("g", "init"))] = ln
        st.env[vkey + (("f", 1),)] = ln
        return ln

    def check_inv(self, st, vkey, inst, span, what):
        if self.heap:
            K = vkey + (("f", 0),)
            ln, init, cap = st.env.get(K + VL), st.env.get(K + VI), st.env.get(K + VC)
            ok = False
            detail = "heap vector state not tracked at %s" % (vkey,)
            if is_int(ln) and is_int(init) and is_int(cap):
                ok = st.get_iv(ln)[0] >= 0 and st.diff_le(ln, init, 0) and st.diff_le(init, cap, 0)
                detail = "length %s initialised prefix %s capacity %s" % (st.get_iv(ln), st.get_iv(init), st.get_iv(cap))
                if not ok and os.environ.get("MLX_DEBUG"):
                    print("INVDBG ln", ln, G.df.get(ln), "init", init, G.df.get(init), "cap", cap, "len<=init", st.diff_le(ln, init, 0), "init<=cap", st.diff_le(init, cap, 0),
                          [(k, v) for k, v in st.facts.items() if init in k or ln in k], file=sys.stderr)
            self.ctx.oblige("vector-invariant " + what, ok, inst, span, detail)
            return
        ln = st.env.get(vkey + (("f", 1),))
        init = st.env.get(vkey + (("f", 0), ("g", "init")))
        ok = False
        detail = "vector state not tracked at %s" % (vkey,)
        if is_int(ln) and is_int(init):
            L = st.get_iv(ln)
            ok = L[0] >= 0 and L[1] <= self.cap and st.diff_le(ln, init, 0)
            detail = "length %s initialised prefix %s capacity %d" % (L, st.get_iv(init), self.cap)
        self.ctx.oblige("vector-invariant " + what, ok, inst, span, detail)

    # -- standalone analysis -------------------------------------------------------------
    def summary(self, callee):
        key = callee["id"]
        s = self.cache.get(key)
        if s is not None:
            return s
        from .run import mk_arg
        from .engine import Agg, snapshot, write
        ctx = self.ctx
        saved = (ctx.record, ctx.callstack, ctx.depth)
        ctx.record = True
        ctx.callstack = []
        ctx.depth = 0
        self.active.add(key)
        try:
            st = St()
            fr = next(G.frames)
            afr = next(G.frames)
            c = contract_for(callee["dpath"]) or {}
            vecs = []
            for i in range(1, callee["argc"] + 1):
                ty = callee["locals"][i]
                v = mk_arg(st, ty, (afr, i), ctx.facts, ctx.model, i, {})
                if i in c and is_int(v):
                    st.set_iv(v, c[i][0], c[i][1])
                if isinstance(v, Agg):
                    v = snapshot(st, v)
                write(st, (fr, i), v)
                # remember where `&mut` vectors live, to check INV at the exits
                if ty.get("k") == "ref" and ty.get("mut"):
                    for vk in self.vec_keys(ty["to"], (afr, i, "pointee")):
                        vecs.append(vk)
            exits = self.I.run_fn(callee, fr, [st])
            shapes = None
            for s2, rv in exits:
                for vk in vecs:
                    self.check_inv(s2, vk, callee, callee.get("span"), "at exit (&mut argument)")
                sh = self.shape_of(s2, rv, callee["locals"][0], callee)
                shapes = sh if shapes is None else self.join_shape(shapes, sh)
            s = {"ret": shapes, "diverges": not exits}
        finally:
            self.active.discard(key)
            ctx.record, ctx.callstack, ctx.depth = saved
        self.cache[key] = s
        ctx.notes["modular functions analysed"] += 1
        return s

    def shape_of(self, st, rv, ty, callee):
        """abstract return value as {path: ('int', lo, hi) | ('vec', lo, hi) | ('top',)}"""
        from .engine import Fields
        out = {}
        if rv is None:
            return out
        if not isinstance(rv, Fields):
            if is_int(rv):
                r = st.get_iv(rv)
                out[()] = ("int", r[0], r[1])
            else:
                out[()] = ("top",)
            return out
        d = rv.d
        # vectors: find array / vec cells
        vec_prefixes = []
        for p, a in d.items():
            if type(a) is int and a in G.obj and G.obj[a][0] in ("array", "vec"):
                vec_prefixes.append(p[:-1])       # p = prefix + (("f", 0),)
        for vp in vec_prefixes:
            if self.heap:
                K = vp + (("f", 0),)
                ln, init, cap = d.get(K + VL), d.get(K + VI), d.get(K + VC)
                ok = False
                r = (0, HEAP_MAX)
                detail = "heap vector state not tracked"
                if is_int(ln) and is_int(init) and is_int(cap):
                    r = st.get_iv(ln)
                    ok = r[0] >= 0 and st.diff_le(ln, init, 0) and st.diff_le(init, cap, 0)
                    detail = "length %s initialised prefix %s capacity %s" % (r, st.get_iv(init), st.get_iv(cap))
                self.ctx.oblige("vector-invariant at exit (returned vector)", ok, callee, callee.get("span"), detail)
                out[vp] = ("vec", max(r[0], 0), min(r[1], HEAP_MAX))
                continue
            ln = d.get(vp + (("f", 1),))
            init = d.get(vp + (("f", 0), ("g", "init")))
            ok = False
            r = (0, self.cap)
            if is_int(ln) and is_int(init):
                r = st.get_iv(ln)
                ok = r[0] >= 0 and r[1] <= self.cap and st.diff_le(ln, init, 0)
                detail = "length %s initialised prefix %s" % (r, st.get_iv(init))
            else:
                detail = "vector state not tracked"
            self.ctx.oblige("vector-invariant at exit (returned vector)", ok, callee, callee.get("span"), detail)
            out[vp] = ("vec", max(r[0], 0), min(r[1], self.cap))
        for p, a in d.items():
            if any(p[:len(vp)] == vp for vp in vec_prefixes):
                continue
            if is_int(a):
                r = st.get_iv(a)
                out[p] = ("int", r[0], r[1])
            else:
                out[p] = ("top",)
        return out

    def join_shape(self, a, b):
        out = {}
        for p in set(a) | set(b):
            x, y = a.get(p), b.get(p)
            if x is None or y is None:
                # present on some exits only (enum payloads): keep
                out[p] = x or y
            elif x[0] == y[0] and x[0] in ("int", "vec"):
                out[p] = (x[0], min(x[1], y[1]), max(x[2], y[2]))
            else:
                out[p] = ("top",)
        return out

    def instantiate(self, st, shape):
        from .engine import Fields
        if shape is None:
            return None
        if set(shape) == {()} and shape[()][0] != "vec":
            s = shape[()]
            return new_int(s[1], s[2]) if s[0] == "int" else new_top()
        d = {}
        for p, s in shape.items():
            if s[0] == "int":
                d[p] = const_int(s[1]) if s[1] == s[2] else new_int(s[1], s[2])
            elif s[0] == "vec":
                ln = new_int(s[1], s[2])
                if self.heap:
                    K = p + (("f", 0),)
                    init = new_int(s[1], HEAP_MAX)
                    cap = new_int(s[1], HEAP_MAX)
                    d[K] = new_obj(("vec",))
                    d[K + VL], d[K + VI], d[K + VC] = ln, init, cap
                    st.add_fact(ln, init, 0)
                    st.add_fact(init, cap, 0)
                else:
                    d[p + (("f", 0),)] = new_obj(("array", ("n", self.cap)))
                    d[p + (("f", 0), ("g", "init"))] = ln
                    d[p + (("f", 1),)] = ln
            else:
                d[p] = new_top()
        return Fields(d)

    # -- call sites ----------------------------------------------------------------------
    def apply(self, st, fr, inst, t, callee, args, c):
        from .engine import Fields
        ctx = self.ctx
        span = t.get("span") or {}
        name = callee["dpath"]
        for i, (lo, hi) in c.items():
            a = args[i - 1] if i - 1 < len(args) else None
            ok = False
            detail = "argument %d not tracked" % i
            if is_int(a):
                r = st.get_iv(a)
                ok = lo <= r[0] and r[1] <= hi
                detail = "argument %d in %s, contract requires [%d, %d]" % (i, r, lo, hi)
            ctx.oblige("precondition of " + name, ok, inst, span, detail)
        summ = self.summary(callee)
        # vectors passed by reference
        for i in range(1, callee["argc"] + 1):
            ty = callee["locals"][i]
            a = args[i - 1] if i - 1 < len(args) else None
            if ty.get("k") == "ref":
                d = G.ptr.get(a) if type(a) is int else None
                for vk_rel in self.vec_keys(ty["to"], ()):
                    if d and d[0] == "loc":
                        vk = d[1] + vk_rel
                        self.check_inv(st, vk, inst, span, "at call of " + name.rsplit("::", 1)[-1])
                        if ty.get("mut"):
                            self.establish_inv(st, vk)
                    else:
                        ctx.oblige("vector-invariant at call of " + name.rsplit("::", 1)[-1], False, inst, span, "vector argument is not a tracked location")
            elif is_vec_ty(ty) or is_bigint_ty(ty):
                if isinstance(a, Fields):
                    tmp = (next(G.frames), 0)
                    from .engine import write
                    write(st, tmp, a)
                    for vk in self.vec_keys(ty, tmp):
                        self.check_inv(st, vk, inst, span, "at call of " + name.rsplit("::", 1)[-1])
                    st.env.drop_frame(tmp[0])
        if summ["diverges"]:
            return []
        return [(st, self.instantiate(st, summ["ret"]))]
