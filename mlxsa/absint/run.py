"""Entry points of E4: whole-program roots and modular entry points."""
import os
import sys
import time

sys.path.insert(0, os.path.dirname(os.path.dirname(os.path.dirname(os.path.abspath(__file__)))))

from .domain import G, St, new_int, const_int, new_ptr, new_obj, new_top, trange
from .engine import Ctx, Interp, Fields, Agg, write, A1_BOUND

# field positions of the two plain structs the pre-/post-conditions talk about; bound to the CURRENT tree's declaration order by
# bind_fields() (a reordered struct must neither raise an alarm nor silently redirect a precondition)
EFM, EFE = 0, 1                  # ExtendedFloat { mant, exp }
NUE, NUM_, NUD = 0, 1, 2         # Number { exponent, mantissa, many_digits }


def bind_fields(facts):
    global EFM, EFE, NUE, NUM_, NUD
    idx = {}
    for s_ in facts.lib.get("structs", []):
        idx[s_["path"]] = [f_["name"] for f_ in s_["fields"]]
    ef, nu = idx.get("extended_float::ExtendedFloat"), idx.get("number::Number")
    if ef and "mant" in ef and "exp" in ef:
        EFM, EFE = ef.index("mant"), ef.index("exp")
    if nu and all(n_ in nu for n_ in ("exponent", "mantissa", "many_digits")):
        NUE, NUM_, NUD = nu.index("exponent"), nu.index("mantissa"), nu.index("many_digits")
    return {"ExtendedFloat": ef, "Number": nu}


def byte_regions(model):
    if model == "valid":
        return (("ext", "int", (0x30, 0x39), (0x31, 0x39)), ("ext", "frac", (0x30, 0x39), None))
    return (("ext", "int", (0, 255), None), ("ext", "frac", (0, 255), None))


def analyze_root(facts, root_name, model, ctx=None):
    """abstractly execute root_f32/root_f64(integer: &[u8], fraction: &[u8], exponent: i32)"""
    G.reset()
    ctx = ctx or Ctx(facts, model)
    I = Interp(ctx)
    rid = facts.root_id(root_name)
    inst = facts.mono[rid]
    st = St()
    fr = next(G.frames)
    rint, rfrac = byte_regions(model)
    st.env[(fr, 1)] = new_ptr(("slice", rint, const_int(0), new_int(0, A1_BOUND)))
    st.env[(fr, 2)] = new_ptr(("slice", rfrac, const_int(0), new_int(0, A1_BOUND)))
    st.env[(fr, 3)] = new_int(-(1 << 31), (1 << 31) - 1)
    t0 = time.time()
    exits = I.run_fn(inst, fr, [st])
    ctx.wall = time.time() - t0
    ctx.exits = len(exits)
    return ctx


def analyze_frontend(facts, root_name):
    """root_fe_<copy>_<F>(bytes: &[u8]) with arbitrary bytes; the library call is summarised (its own behaviour is C04/C08)"""
    G.reset()
    ctx = Ctx(facts, "arbitrary")
    ctx.frontend = True
    I = Interp(ctx)
    rid = facts.root_id(root_name)
    inst = facts.mono[rid]
    st = St()
    fr = next(G.frames)
    st.env[(fr, 1)] = new_ptr(("slice", ("ext", "input", (0, 255), None), const_int(0), new_int(0, A1_BOUND)))
    t0 = time.time()
    exits = I.run_fn(inst, fr, [st])
    ctx.wall = time.time() - t0
    ctx.exits = len(exits)
    ctx.exit_states = exits
    return ctx


def frontend_postconditions(ctx, facts, root_name):
    """C19 structural post-conditions, recorded as obligations of kind `post:`"""
    rid = facts.root_id(root_name)
    inst = facts.mono[rid]
    # (a) the library is called at all, with the third argument an i32 and iterators over the input region
    ok = bool(ctx.lib_calls)
    detail = "%d abstract call sites reached" % len(ctx.lib_calls)
    for st, args, cinst, span in ctx.lib_calls:
        for a in args[:2]:
            o = G.obj.get(a) if isinstance(a, int) else None
            if not (o and o[0] == "iter" and o[1][:2] == ("ext", "input")):
                ok = False
                detail = "an iterator argument of minimal_lexical::parse_float is not an iterator over (a sub-slice of) the input bytes"
    ctx.record = True
    ctx.oblige("post:library called on sub-slices of the input", ok, inst, inst.get("span"), detail)
    # (b) the returned remainder is a sub-slice of the input
    okr = True
    for st, rv in ctx.exit_states:
        p = rv.d.get((("f", 1),)) if isinstance(rv, Fields) else None
        d = G.ptr.get(p) if isinstance(p, int) else None
        if not (d and d[0] == "slice" and d[1][:2] == ("ext", "input")):
            okr = False
    ctx.oblige("post:returned remainder is a sub-slice of the input", okr and bool(ctx.exit_states), inst, inst.get("span"),
               "%d exits" % len(ctx.exit_states))


def truncation_postconditions(ctx, inst):
    """C06 typestate: a digit may be left unread only if the result says so.
    parse_number:       every exit has many_digits == true, or both input iterators exhausted
    parse_number_fast:  Some(..) only with both iterators exhausted
    parse_mantissa:     both iterators exhausted, or count >= max_digits"""
    name = inst["dpath"].rsplit("::", 1)[-1]
    L1, L2 = ("exh", ("L", "arg1")), ("exh", ("L", "arg2"))
    ctx.record = True
    n_ok = 0
    n_sticky, sticky_bad = 0, []
    for st, rv in ctx.exit_states:
        both = L1 in st.ghost and L2 in st.ghost
        ok = both
        why = "integer exhausted=%s fraction exhausted=%s" % (L1 in st.ghost, L2 in st.ghost)
        d = rv.d if isinstance(rv, Fields) else {}
        if name == "parse_number":
            md = d.get((("f", NUD),))
            mdv = st.get_iv(md) if isinstance(md, int) and md in G.base else None
            ok = both or mdv == (1, 1)
            why += " many_digits=%s" % (mdv,)
            if not ok:
                # the returned Number is the payload of a `Some(..)` produced by a callee that exhausted clones of both
                # parameters (the quick first pass): every digit went into that value
                kids = {1: False, 2: False}
                for gk in st.ghost:
                    if gk[0] == "exh" and len(gk[1]) == 3:
                        par = gk[1][2]
                        if par == ("L", "arg1"):
                            kids[1] = True
                        if par == ("L", "arg2"):
                            kids[2] = True
                mant = d.get((("f", NUM_),))
                alias = False
                for k, a in st.env.items():
                    if len(k) == 5 and k[2] == ("v", 1) and k[3] == ("f", 0) and k[4] == ("f", NUM_) and a == mant:
                        dk = st.env.get(k[:2] + ("discr",))
                        if isinstance(dk, int) and dk in G.base and st.get_iv(dk) == (1, 1):
                            alias = True
                if alias and kids[1] and kids[2]:
                    ok = True
                    why += " (value of a first pass that consumed clones of both iterators)"
        elif name == "parse_number_fast":
            dv = d.get(("discr",))
            dvv = st.get_iv(dv) if isinstance(dv, int) and dv in G.base else None
            ok = both or dvv == (0, 0)
            why += " discriminant=%s" % (dvv,)
        elif name == "parse_mantissa":
            cnt = d.get((("f", 1),))
            # max_digits is argument 3
            key = None
            mx = None
            for k, a in st.env.items():
                pass
            mx = ctx.arg_atoms.get(3)
            if isinstance(cnt, int) and cnt in G.base and mx is not None:
                ok = both or st.diff_le(mx, cnt, 0)
                why += " count=%s max_digits=%s" % (st.get_iv(cnt), st.get_iv(mx))
                # sticky digit: the count exceeds max_digits only when a `1` was appended for a dropped NON-ZERO digit
                # ("trailing zeros never break a tie"): the byte read last on this path must exclude b'0'
                if st.diff_le(mx, cnt, -1):
                    n_sticky += 1
                    lb = st.ghost.get(("last_input_byte",))
                    LB = st.get_iv(lb) if isinstance(lb, int) and lb in G.base else None
                    if not (LB is not None and (LB[0] > 0x30 or LB[1] < 0x30)):
                        sticky_bad.append("an exit with count > max_digits whose last-read input byte is %s" % (LB,))
        ctx.oblige("post:unread digits imply the truncation flag", ok, inst, inst.get("span"), why)
        n_ok += ok
    if name == "parse_mantissa":
        ctx.oblige("post:unread digits: the sticky digit is appended only after a non-zero dropped digit was read", not sticky_bad and n_sticky >= 1, inst, inst.get("span"),
                   "; ".join(sorted(set(sticky_bad))[:3]) or "%d exits with count > max_digits" % n_sticky)
    if not ctx.exit_states:
        ctx.oblige("post:unread digits imply the truncation flag", False, inst, inst.get("span"), "no exit state")


def round_postconditions(ctx, inst, facts):
    """C18: after round::<F, _>(&mut fp, cb) the fields pack without overlap and never encode NaN:
    0 <= exp <= INFINITE_POWER, mant <= HIDDEN_BIT_MASK, exp == INFINITE_POWER => mant == 0"""
    fty = None
    for t in inst.get("targs", []):
        if t.get("k") == "float":
            fty = "f%d" % t["bits"]
    if fty is None:
        return
    inf = facts.float_const(fty, "INFINITE_POWER")
    hid = facts.float_const(fty, "HIDDEN_BIT_MASK")
    ctx.record = True
    for st, rv in ctx.exit_states:
        p = None
        for k, a in st.env.items():
            if len(k) == 3 and k[2] == "pointee" and k[1] == 1:
                pass
        # the ExtendedFloat lives in the argument frame: (afr, 1, "pointee", f0/f1)
        cells = [(k, a) for k, a in st.env.items() if len(k) == 4 and k[1] == 1 and k[2] == "pointee"]
        m = e = None
        for k, a in cells:
            if k[3] == ("f", EFM):
                m = a
            if k[3] == ("f", EFE):
                e = a
        ok = False
        why = "result not tracked"
        if isinstance(m, int) and isinstance(e, int) and m in G.base and e in G.base:
            M, E = st.get_iv(m), st.get_iv(e)
            ok = E[0] >= 0 and E[1] <= inf and M[0] >= 0 and M[1] <= hid and (E[1] < inf or M == (0, 0))
            why = "exp %s mant %s (INFINITE_POWER %d, HIDDEN_BIT_MASK %d)" % (E, M, inf, hid)
        ctx.oblige("post:round yields packable fields (no NaN, no overlap)", ok, inst, inst.get("span"), why)
    if not ctx.exit_states:
        ctx.oblige("post:round yields packable fields (no NaN, no overlap)", False, inst, inst.get("span"), "no exit state")


def cutoff_postconditions(ctx, inst, facts):
    """C07/C05: an exit of the moderate stage that returns literal infinity / zero *before any call* (an early-out by decimal
    exponent alone) must be implied by the exponent bound of its path: 10^q_lo >= 2^(bias+1), resp. 2^64 * 10^q_hi <= 2^(-bias-p)"""
    from fractions import Fraction
    from ..consts import ieee
    fty = None
    for t in inst.get("targs", []):
        if t.get("k") == "float":
            fty = "f%d" % t["bits"]
    if fty is None:
        return
    P, w, bias, p, bits = ieee(facts, fty)
    inf = facts.float_const(fty, "INFINITE_POWER")
    ctx.record = True
    n = 0
    name = inst["dpath"].rsplit("::", 1)[-1]
    for st, rv in ctx.exit_states:
        if ("called",) in st.ghost or not isinstance(rv, Fields):
            continue
        m, e = rv.d.get((("f", EFM),)), rv.d.get((("f", EFE),))
        if not (isinstance(m, int) and isinstance(e, int) and m in G.base and e in G.base):
            continue
        M, E = st.get_iv(m), st.get_iv(e)
        if name == "compute_float":
            q = ctx.arg_atoms.get(1)
        else:
            q = st.env.get((ctx.arg_frame, 1, "pointee", ("f", NUE)))
        if not (isinstance(q, int) and q in G.base):
            continue
        Q = st.get_iv(q)
        if M == (0, 0) and E == (inf, inf):
            n += 1
            ok = Fraction(10) ** min(Q[0], 5000) >= Fraction(2) ** (bias + 1) if Q[0] > -5000 else False
            ctx.oblige("post:early infinity implied by the decimal exponent", ok, inst, inst.get("span"),
                       "path has q in %s; needs 10^q_lo >= 2^%d" % (Q, bias + 1))
        elif M == (0, 0) and E == (0, 0):
            n += 1
            ok = Fraction(2) ** 64 * Fraction(10) ** max(Q[1], -5000) <= Fraction(1, 2 ** (bias + p)) if Q[1] < 5000 else False
            ctx.oblige("post:early zero implied by the decimal exponent", ok, inst, inst.get("span"),
                       "path has q in %s; needs 2^64 * 10^q_hi <= 2^-%d" % (Q, bias + p))
    ctx.oblige("post:early-out exits found", n >= 2, inst, inst.get("span"), "%d call-free exits returning a literal zero/infinity" % n)


def protocol_postconditions(ctx, inst, facts):
    """C11 sentinel protocol of the moderate stage: every exit is either DECLINED (exp < 0, significand normalised: top bit set -- slow()'s
    precondition) or DEFINITE (0 <= exp <= INFINITE_POWER, mant <= HIDDEN_BIT_MASK, and mant <= MANTISSA_MASK whenever exp >= 2 on the whole
    exit, so that `mant | exp << MANTISSA_SIZE` does not corrupt the exponent field).  No exit may straddle the two."""
    fty = None
    for t in inst.get("targs", []):
        if t.get("k") == "float":
            fty = "f%d" % t["bits"]
    if fty is None:
        return
    inf = facts.float_const(fty, "INFINITE_POWER")
    hid = facts.float_const(fty, "HIDDEN_BIT_MASK")
    msk = facts.float_const(fty, "MANTISSA_MASK")
    ctx.record = True
    n_def = n_dec = 0
    for st, rv in ctx.exit_states:
        ok = False
        why = "result not tracked"
        if isinstance(rv, Fields):
            m, e = rv.d.get((("f", EFM),)), rv.d.get((("f", EFE),))
            if isinstance(m, int) and isinstance(e, int) and m in G.base and e in G.base:
                M, E = st.get_iv(m), st.get_iv(e)
                why = "mant %s exp %s" % (M, E)
                if E[1] < 0:
                    n_dec += 1
                    ok = M[0] >= 1 << 63
                    why += " (declined: significand must have its top bit set)"
                elif E[0] >= 0:
                    n_def += 1
                    ok = E[1] <= inf and M[0] >= 0 and M[1] <= hid and (E[0] < 2 or M[1] <= msk)
                    why += " (definite: exp <= %d, mant <= %d, and <= %d when exp >= 2)" % (inf, hid, msk)
                else:
                    why += " (exit straddles declined and definite)"
        ctx.oblige("post:stage exit is declined-normalised or definite-packable", ok, inst, inst.get("span"), why)
    ctx.oblige("post:stage has declined and definite exits", n_def >= 1 and n_dec >= 1, inst, inst.get("span"), "%d definite, %d declined" % (n_def, n_dec))


def tie_window_postconditions(ctx, inst, facts):
    """C11: the explicit round-to-even window of compute_float, as the code applies it.  Every comparison of the decimal exponent q with a
    constant is logged as an effective inclusive bound; the bounds that sit at (or next to) the named window constants give the effective
    window [lo, hi], which must contain the exponents where an exact tie can reach the stage: hi >= max{k: 5^k <= 2^(P+1)} and
    lo <= -max{k: 5^k < 2^(64-P)} (the same one-sided requirement the constant rule puts on the constants themselves)."""
    from ..consts import ieee
    fty = None
    for t in inst.get("targs", []):
        if t.get("k") == "float":
            fty = "f%d" % t["bits"]
    if fty is None:
        return
    P, w, bias, p, bits = ieee(facts, fty)
    need_hi = max(k for k in range(0, 80) if 5 ** k <= 2 ** (P + 1))
    need_lo = -max(k for k in range(0, 80) if 5 ** k < 2 ** (64 - P))
    cmin = facts.float_const(fty, "MIN_EXPONENT_ROUND_TO_EVEN")
    cmax = facts.float_const(fty, "MAX_EXPONENT_ROUND_TO_EVEN")
    q = ctx.arg_atoms.get(1)
    # a comparison splits the exponents in two: `q <= v` on one side means `q >= v + 1` on the other, so a test written in negated form
    # (`!(q > MAX)`, De Morgan) contributes the complementary bound
    ups = set(v for kind, x, v in ctx.cmp_log if kind == "max" and x == q) | set(v - 1 for kind, x, v in ctx.cmp_log if kind == "min" and x == q)
    downs = set(v for kind, x, v in ctx.cmp_log if kind == "min" and x == q) | set(v + 1 for kind, x, v in ctx.cmp_log if kind == "max" and x == q)
    his = sorted(v for v in ups if abs(v - cmax) <= 1)
    los = sorted(v for v in downs if abs(v - cmin) <= 1)
    ctx.record = True
    ctx.oblige("post:tie window as applied covers the largest exponent with exact ties", bool(his) and max(his) >= need_hi, inst, inst.get("span"),
               "effective upper bounds on q next to MAX_EXPONENT_ROUND_TO_EVEN=%d: %s; needs >= %d" % (cmax, his, need_hi))
    ctx.oblige("post:tie window as applied covers the smallest exponent with exact ties", bool(los) and min(los) <= need_lo, inst, inst.get("span"),
               "effective lower bounds on q next to MIN_EXPONENT_ROUND_TO_EVEN=%d: %s; needs <= %d" % (cmin, los, need_lo))


def slow_postconditions(ctx, inst, facts):
    """C07: slow::<F> decides through the big-integer comparison.  An exit that has not passed through positive_digit_comp /
    negative_digit_comp may only return a literal zero or infinity that the scientific exponent of its path implies:
    value < 10^(sci+1) <= 2^(-bias-p) (half the smallest subnormal), resp. value >= 10^sci >= 2^(bias+1)."""
    from fractions import Fraction
    from ..consts import ieee
    fty = None
    for t in inst.get("targs", []):
        if t.get("k") == "float":
            fty = "f%d" % t["bits"]
    if fty is None:
        return
    P, w, bias, p, bits = ieee(facts, fty)
    inf = facts.float_const(fty, "INFINITE_POWER")
    ctx.record = True
    n_early = 0
    ok_all, why = True, ""
    for st, rv in ctx.exit_states:
        if ("visited", "digit_comp") in st.ghost:
            continue
        n_early += 1
        ok = False
        if isinstance(rv, Fields):
            m, e = rv.d.get((("f", EFM),)), rv.d.get((("f", EFE),))
            se = st.ghost.get(("result", "scientific_exponent"))
            if isinstance(m, int) and isinstance(e, int) and m in G.base and e in G.base and isinstance(se, int) and se in G.base:
                M, E, S = st.get_iv(m), st.get_iv(e), st.get_iv(se)
                if M == (0, 0) and E == (0, 0) and S[1] < 4000:
                    ok = Fraction(10) ** (S[1] + 1) <= Fraction(1, 2 ** (bias + p)) if S[1] + 1 < 0 else False
                    why = "early zero with scientific exponent in %s; needs 10^(hi+1) <= 2^-%d" % (S, bias + p)
                elif M == (0, 0) and E == (inf, inf) and S[0] > -4000:
                    ok = Fraction(10) ** S[0] >= Fraction(2) ** (bias + 1) if S[0] > 0 else False
                    why = "early infinity with scientific exponent in %s; needs 10^lo >= 2^%d" % (S, bias + 1)
                else:
                    why = "an exit returns mant %s exp %s without the big-integer comparison" % (M, E)
            else:
                why = "an exit without the big-integer comparison whose result or scientific exponent is not tracked"
        else:
            why = "an exit without the big-integer comparison"
        if not ok:
            ok_all = False
            break
    ctx.oblige("post:slow decides only through the big-integer comparison (or an early zero/infinity implied by the scientific exponent)",
               ok_all and bool(ctx.exit_states), inst, inst.get("span"), why or "%d exits, %d early" % (len(ctx.exit_states), n_early))


def saturation_postconditions(ctx, inst, positive):
    """C19: parse_exponent returns the saturation constant only when the accumulator was about to overflow"""
    lim = ((1 << 31) - 1 - 9) // 10 + 1        # smallest accumulator value for which value*10 + digit can exceed i32::MAX
    ctx.record = True
    n = 0
    for st, rv in ctx.exit_states:
        if not (isinstance(rv, int) and rv in G.base):
            continue
        R = st.get_iv(rv)
        sat = (1 << 31) - 1 if positive else -(1 << 31)
        if R != (sat, sat):
            continue
        n += 1
        ok = False
        best = None
        for k, a in st.env.frame(ctx.root_frame).items():
            if isinstance(a, int) and a in G.base and a != rv:
                r = st.get_iv(a)
                if positive and r[0] >= lim and r[1] <= (1 << 31):
                    ok = True
                if (not positive) and r[1] <= -lim and r[0] >= -(1 << 31) - 1:
                    ok = True
        ctx.oblige("post:exponent saturates only on i32 overflow", ok, inst, inst.get("span"),
                   "a saturating return whose path does not imply |accumulator| >= %d" % lim)
    ctx.oblige("post:saturating exits found", n >= 1, inst, inst.get("span"), "%d exits return the saturation constant" % n)
    # sign consistency: a positive exponent field never yields a negative exponent and vice versa (swapped saturation constants, wrong accumulate direction)
    oks, why = bool(ctx.exit_states), ""
    for st, rv in ctx.exit_states:
        if not (isinstance(rv, int) and rv in G.base):
            oks, why = False, "result not tracked"
            continue
        R = st.get_iv(rv)
        if (positive and R[0] < 0) or ((not positive) and R[1] > 0):
            oks, why = False, "an exit returns %s for a %s exponent field" % (R, "positive" if positive else "negative")
    ctx.oblige("post:exponent sign follows the sign of the exponent field", oks, inst, inst.get("span"), why)


def bit_classes(p, w):
    """partition of the non-negative bit patterns of a (1, w, p) format into intervals on which sign and the exponent-field class are
    constant: exponent field in {0}, {1}, [2, max-2], {max-1}, {max}; for a single exponent value the fraction is further split into
    {0}, [1, 2^p-2], {2^p-1}.  Returns [(label, sign, (e0, e1), (f0, f1))]; every bit pattern belongs to exactly one class."""
    emax = (1 << w) - 1
    fmax = (1 << p) - 1
    out = []
    for s in (0, 1):
        for (e0, e1) in ((0, 0), (1, 1), (2, emax - 2), (emax - 1, emax - 1), (emax, emax)):
            if e0 == e1:
                for (f0, f1) in ((0, 0), (1, fmax - 1), (fmax, fmax)):
                    out.append(("s=%d e=%d f=[%d,%d]" % (s, e0, f0, f1), s, (e0, e1), (f0, f1)))
            else:
                out.append(("s=%d e=[%d,%d] f=any" % (s, e0, e1), s, (e0, e1), (0, fmax)))
    return out


def analyze_bits(facts, fty):
    """C17 helper bodies.  Floats are carried as their bit patterns; every helper is analysed once per class of `bit_classes` (a finite
    partition of ALL bit patterns into intervals) and its result interval must lie inside the interval the IEEE-754 decoding assigns to that
    class.  The decoding itself is computed from (p, w) = the compiler's MANTISSA_DIGITS / MAX_EXP, not from the crate's constants."""
    from ..consts import ieee
    P, w, bias, p, bits = ieee(facts, fty)       # P = precision (p+1), w exponent bits, bias, p stored fraction bits
    ctx = Ctx(facts, "valid")
    ctx.float_bits = True
    ctx.record = True
    emax = (1 << w) - 1
    covered = 0

    def tname(t):
        return "f%d" % t["bits"] if t.get("k") == "float" else None

    def inst_of(dpath):
        c = [m for m in find_insts(facts, dpath) if any(tname(t) == fty for t in m.get("targs", []))]
        return c[0] if c else None

    def run1(inst, argv):
        G.reset()
        c2 = analyze_fn(facts, inst, "valid", overrides=argv, ctx=ctx)
        return c2.exit_states

    def hull(exits, pick):
        lo = hi = None
        for st, rv in exits:
            a = pick(st, rv)
            if not (isinstance(a, int) and a in G.base):
                return None
            r = st.get_iv(a)
            lo = r[0] if lo is None else min(lo, r[0])
            hi = r[1] if hi is None else max(hi, r[1])
        return None if lo is None else (lo, hi)

    def inside(got, want):
        return got is not None and want[0] <= got[0] and got[1] <= want[1]

    helpers = {}
    for nm, dp in (("is_denormal", "minimal_lexical::num::Float::is_denormal"), ("exponent", "minimal_lexical::num::Float::exponent"),
                   ("mantissa", "minimal_lexical::num::Float::mantissa"), ("b", "minimal_lexical::slow::b"), ("bh", "minimal_lexical::slow::bh"),
                   ("extended_to_float", "minimal_lexical::extended_float::extended_to_float")):
        helpers[nm] = inst_of(dp)
        if helpers[nm] is None:
            ctx.oblige("post:bits helper present: " + nm, False, {"dpath": dp, "path": dp, "targs": [], "krate": "minimal_lexical"}, {}, "no instance for " + fty)
    for label, s, (e0, e1), (f0, f1) in bit_classes(p, w):
        lo = (s << (p + w)) | (e0 << p) | f0
        hi = (s << (p + w)) | (e1 << p) | f1
        covered += hi - lo + 1
        arg = {1: (lambda st, key, lo=lo, hi=hi: new_int(lo, hi))}
        den = e1 == 0
        want_e = (1 - bias - p, 1 - bias - p) if den else (e0 - bias - p, e1 - bias - p)
        want_m = (f0, f1) if den else ((1 << p) + f0, (1 << p) + f1)
        spec = {
            "is_denormal": [("value", lambda st, rv: rv, (1, 1) if den else (0, 0))],
            "exponent": [("value", lambda st, rv: rv, want_e)],
            "mantissa": [("value", lambda st, rv: rv, want_m)],
            "b": [("mant", lambda st, rv: rv.d.get((("f", EFM),)) if isinstance(rv, Fields) else None, want_m),
                  ("exp", lambda st, rv: rv.d.get((("f", EFE),)) if isinstance(rv, Fields) else None, want_e)],
            "bh": [("mant", lambda st, rv: rv.d.get((("f", EFM),)) if isinstance(rv, Fields) else None, (2 * want_m[0] + 1, 2 * want_m[1] + 1)),
                   ("exp", lambda st, rv: rv.d.get((("f", EFE),)) if isinstance(rv, Fields) else None, (want_e[0] - 1, want_e[1] - 1))],
        }
        for nm, checks in spec.items():
            inst = helpers[nm]
            if inst is None:
                continue
            exits = run1(inst, arg)
            for what, pick, want in checks:
                got = hull(exits, pick) if exits else None
                ctx.oblige("post:bits %s.%s on class %s" % (nm, what, label), inside(got, want), inst, inst.get("span"),
                           "bit patterns [%#x, %#x]: result %s, IEEE-754 decoding requires within %s" % (lo, hi, got, want))
    # packing: every (biased exponent, stored fraction) pair produced by round (C18 post-condition) packs to exponent<<p | fraction
    inst = helpers["extended_to_float"]
    if inst is not None:
        fmax = (1 << p) - 1
        for (e0, e1) in ((0, 0), (1, 1), (2, emax - 1), (emax, emax)):
            for (f0, f1) in ((0, 0), (1, fmax)):
                if e0 == emax and f0 != 0:
                    continue
                def mkx(st, key, e0=e0, e1=e1, f0=f0, f1=f1):
                    st.env[key + (("f", EFM),)] = new_int(f0, f1)
                    st.env[key + (("f", EFE),)] = new_int(e0, e1)
                    return Agg(key)
                exits = run1(inst, {1: mkx})
                got = hull(exits, lambda st, rv: rv) if exits else None
                want = ((e0 << p) + f0, (e1 << p) + f1)
                ctx.oblige("post:bits extended_to_float on exp=[%d,%d] mant=[%d,%d]" % (e0, e1, f0, f1), inside(got, want), inst, inst.get("span"),
                           "result bits %s, packing requires within %s" % (got, want))
    ctx.oblige("post:bits classes cover every bit pattern", covered == 1 << (p + w + 1),
               helpers["is_denormal"] or {"dpath": "num::Float", "path": "num::Float", "targs": [], "krate": "minimal_lexical"}, {},
               "%d of %d patterns" % (covered, 1 << (p + w + 1)))
    ctx.exits = 0
    ctx.wall = 0.0
    return ctx


def _pre_snapshot(st, fr):
    """C13: remember the cells of the `&mut self` argument and mark the path as not having written any untracked memory"""
    from .domain import const_int as _c
    st.ghost[("pristine",)] = _c(1)


def failure_unchanged_postconditions(ctx, inst):
    """C13: a fallible vector operation that reports failure (returns None) leaves the vector as it was: on every exit whose return value is
    None, (a) every tracked cell of `*self` holds the very atom it held on entry (atoms are immutable values, so identity = unchanged),
    (b) no raw / untracked memory write happened on the path (must-mark `pristine` still present)."""
    ctx.record = True
    entry = getattr(ctx, "entry_cells", {})
    n_none = 0
    for st, rv in ctx.exit_states:
        if not isinstance(rv, Fields):
            continue
        d = rv.d.get(("discr",))
        if not (isinstance(d, int) and d in G.base and st.get_iv(d) == (0, 0)):
            continue
        n_none += 1
        changed = []
        for k, a in entry.items():
            if k[-1] in (("g", "pstart"), ("g", "pend")):
                continue
            b = st.env.get(k)
            if b != a:
                changed.append(str(k[3:]))
        extra = [str(k[3:]) for k in st.env if len(k) > 3 and k[:3] == (ctx.arg_frame, 1, "pointee") and k not in entry
                 and k[-1] in (("g", "pstart"), ("g", "pend"))]
        ok = not changed and not extra and ("pristine",) in st.ghost
        why = "changed cells of *self: %s; pending raw writes: %s; untracked memory written: %s" % (changed[:6], extra[:2], ("pristine",) not in st.ghost)
        ctx.oblige("post:a failed operation leaves the vector unchanged", ok, inst, inst.get("span"), why)
    ctx.oblige("post:failing exits found", n_none >= 1, inst, inst.get("span"), "%d exits return None" % n_none)


def _reaches(facts, inst, suffixes, depth=6):
    """does instance `inst` (transitively, through calls and closure references) reach a function whose dpath ends with one of suffixes?"""
    seen, todo = set(), [inst["id"]]
    for _ in range(depth):
        nxt = []
        for i in todo:
            m = facts.mono.get(i)
            if m is None or i in seen:
                continue
            seen.add(i)
            if m["dpath"].endswith(suffixes):
                return True
            for b in m.get("blocks", []):
                t = b["t"]
                if t.get("k") == "call" and t.get("callee") is not None:
                    nxt.append(t["callee"])
            nxt.extend(m.get("fnrefs", []) if isinstance(m.get("fnrefs"), list) and all(isinstance(x, int) for x in m.get("fnrefs", [])) else [])
        todo = nxt
    return False


def analyze_round_classes(facts, fty):
    """C18 boundary classes of rounding::round::<F, _>: for (significand class, biased exponent) pairs on which interval arithmetic is exact,
    the result fields must EQUAL the IEEE result: shift-64 subnormals (tie -> 0, above -> smallest subnormal), the largest subnormal rounding
    up to the smallest normal, the carry into the next binade, and the overflow to infinity -- for the nearest-even instances; the
    truncating instances must return the floor on the same classes."""
    from ..consts import ieee
    P, w, bias, p, bits = ieee(facts, fty)
    inf = (1 << w) - 1
    S = 64 - p - 1
    top = 1 << 64
    ctx = Ctx(facts, "valid")
    ctx.record = True
    insts = [m for m in find_insts(facts, "minimal_lexical::rounding::round", fty)]
    classes = [
        # label, (m_lo, m_hi), e, expected nearest-even (mant, exp), expected truncating (mant, exp)
        ("shift 64, exact half of the smallest subnormal", (1 << 63, 1 << 63), -63, (0, 0), (0, 0)),
        ("shift 64, above half of the smallest subnormal", ((1 << 63) + 1, top - 1), -63, (1, 0), (0, 0)),
        ("largest subnormal, tie with odd lower neighbour", (top - (1 << S), top - (1 << S)), -S, (1 << p, 1), ((1 << p) - 1, 0)),
        ("largest subnormal, above the tie", (top - (1 << S) + 1, top - 1), -S, (1 << p, 1), ((1 << p) - 1, 0)),
        ("all-ones significand above the tie: carry into the next binade", (top - (1 << (S - 1)) + 1, top - 1), 5, (0, 5 + S + 1), ((1 << p) - 1, 5 + S)),
        ("carry out of the largest finite binade: infinity", (top - (1 << (S - 1)) + 1, top - 1), inf - S - 1, (0, inf), ((1 << p) - 1, inf - 1)),
        ("biased exponent already at the infinite power", (1 << 63, top - 1), inf - S, (0, inf), (0, inf)),
    ]
    def _captures(inst):
        """does the rounding callback chain of this instance build a closure that captures state (a direction decided outside, e.g. by a
        big-integer comparison)?  Then the generic nearest-even expectation does not apply."""
        seen, todo = set(), [inst["id"]]
        for _ in range(4):
            nxt = []
            for i in todo:
                m = facts.mono.get(i)
                if m is None or i in seen or "blocks" not in m:
                    continue
                seen.add(i)
                for b in m["blocks"]:
                    for st_ in b["s"]:
                        rv = st_.get("rv") if st_["k"] == "assign" else None
                        if rv and rv.get("rv") == "agg" and rv["kind"].get("agg") == "closure" and rv["ops"] and i != inst["id"]:
                            return True
                    t = b["t"]
                    if t.get("k") == "call" and t.get("callee") is not None:
                        c = facts.mono.get(t["callee"])
                        if c is not None and c.get("krate") == "minimal_lexical":
                            nxt.append(t["callee"])
            todo = nxt
        return False

    n_ne = n_tr = n_ext = 0
    for inst in insts:
        ne = _reaches(facts, inst, ("rounding::round_nearest_tie_even",))
        tr = (not ne) and _reaches(facts, inst, ("rounding::round_down",))
        cb_captures = any(t.get("k") == "closure" and t.get("upvars", 0) > 0 for t in inst.get("targs", []))
        if ne and (cb_captures or _captures(inst)):
            n_ext += 1
            continue
        if not (ne or tr):
            continue
        n_ne += ne
        n_tr += tr
        for label, (m0, m1), e, want_ne, want_tr in classes:
            want = want_ne if ne else want_tr

            def pre(st, fr, m0=m0, m1=m1, e=e):
                ptr = st.env.get((fr, 1))
                d = G.ptr.get(ptr)
                if d and d[0] == "loc":
                    st.env[d[1] + (("f", EFM),)] = const_int(m0) if m0 == m1 else new_int(m0, m1)
                    st.env[d[1] + (("f", EFE),)] = const_int(e)
            G.reset()
            c2 = analyze_fn(facts, inst, "valid", ctx=ctx, pre=pre)
            got = None
            okk = bool(c2.exit_states)
            for st, rv in c2.exit_states:
                cells = {k[3]: a for k, a in st.env.items() if len(k) == 4 and k[1] == 1 and k[2] == "pointee"}
                m, ee = cells.get(("f", EFM)), cells.get(("f", EFE))
                if not (isinstance(m, int) and isinstance(ee, int) and m in G.base and ee in G.base):
                    okk = False
                    continue
                M, E = st.get_iv(m), st.get_iv(ee)
                got = (M, E)
                if M != (want[0], want[0]) or E != (want[1], want[1]):
                    okk = False
            ctx.oblige("post:round(%s) on class: %s" % ("nearest-even" if ne else "truncating", label), okk, inst, inst.get("span"),
                       "significand [%#x, %#x] biased exponent %d: got (mant, exp) = %s, IEEE result is %s" % (m0, m1, e, got, want))
    any_inst = insts[0] if insts else {"dpath": "minimal_lexical::rounding::round", "path": "round", "targs": [], "krate": "minimal_lexical"}
    ctx.oblige("post:round instances classified", n_ne + n_tr >= 1 and (n_ne >= 1 or "compact" not in facts.config), any_inst, any_inst.get("span") if insts else {}, "%d nearest-even, %d truncating, %d externally decided instances of round::<%s, _>" % (n_ne, n_tr, n_ext, fty))
    ctx.exits = 0
    ctx.wall = 0.0
    return ctx


def analyze_window_classes(facts, fty):
    """C11 (Bellerophon), sibling agreement: the bit position whose neighbourhood `error_is_accurate::<F>` examines (the width it passes to
    `lower_n_halfway` / `lower_n_mask`) must be the width at which `rounding::round::<F, _>` then rounds the same extended float -- for
    every biased exponent.  The exponent is partitioned into singleton classes over the whole subnormal range and its two neighbours on
    the normal side, plus one class for all larger exponents; significand and error estimate stay abstract.  With exponent -64 the
    estimate must not reach a width at all (the shift is 65: only the carry test decides) while `round` clamps to 64."""
    from ..consts import ieee
    P, w, bias, p, bits = ieee(facts, fty)
    S = 64 - p - 1
    inf = (1 << w) - 1
    top = 1 << 64
    ctx = Ctx(facts, "valid")
    ctx.record = True
    from audit.roles import actual, CANON_EIA
    eas = find_insts(facts, actual(facts, CANON_EIA), fty)
    rounds = [m for m in find_insts(facts, "minimal_lexical::rounding::round", fty) if _reaches(facts, m, ("rounding::round_nearest_tie_even",))]
    dummy = {"dpath": "minimal_lexical::bellerophon::error_is_accurate", "path": "error_is_accurate", "targs": [], "krate": "minimal_lexical"}
    if not eas or not rounds:
        ctx.oblige("post:window siblings present", False, dummy, {}, "%d instances of error_is_accurate::<%s>, %d nearest-even instances of round::<%s, _>" % (len(eas), fty, len(rounds), fty))
        ctx.exits, ctx.wall = 0, 0.0
        return ctx
    ea = eas[0]
    classes = [(e, e) for e in range(-64, -S + 3)] + [(-S + 3, inf + 64)]

    def widths(inst, argi, e0, e1, errs):
        def pre(st, fr):
            ptr = st.env.get((fr, argi))
            d = G.ptr.get(ptr)
            if d and d[0] == "loc":
                st.env[d[1] + (("f", EFM),)] = new_int(1 << 63, top - 1)
                st.env[d[1] + (("f", EFE),)] = const_int(e0) if e0 == e1 else new_int(e0, e1)
        G.reset()
        ctx.arg_log = {"mask::lower_n_halfway": [], "mask::lower_n_mask": []}
        ov = {1: (lambda st, key: new_int(0, errs))} if errs is not None else None
        c2 = analyze_fn(facts, inst, "valid", ctx=ctx, pre=pre, overrides=ov)
        log = ctx.arg_log
        ctx.arg_log = None
        out = {}
        for k, calls in log.items():
            out[k] = sorted(set(a[0] for _f, a in calls if a))
        return out, bool(c2.exit_states)

    n = 0
    for e0, e1 in classes:
        wa, ok_a = widths(ea, 2, e0, e1, (1 << 56) - 2)
        lab = "biased exponent %d" % e0 if e0 == e1 else "biased exponents %d..%d" % (e0, e1)
        for rinst in rounds:
            wr, ok_r = widths(rinst, 1, e0, e1, None)
            ha, hr = wa["mask::lower_n_halfway"], wr["mask::lower_n_halfway"]
            ma, mr = wa["mask::lower_n_mask"], wr["mask::lower_n_mask"]
            if e0 == e1 == -64:
                good = ok_a and ok_r and ha == [] and hr == [(64, 64)]
                want = "no width in the estimate (carry test only), 64 in round"
            else:
                good = ok_a and ok_r and len(ha) == 1 and ha == hr and ha[0][0] == ha[0][1] and ma == mr == ha
                want = "one and the same width in both"
            ctx.oblige("post:window width agrees with round on class: %s" % lab, good, ea, ea.get("span"),
                       "error_is_accurate::<%s> examines widths %s (mask %s); %s rounds at %s (mask %s); required: %s" % (fty, ha, ma, rinst["name"][:80], hr, mr, want))
            n += 1
    ctx.oblige("post:window classes enumerated", n >= len(classes), ea, ea.get("span"), "%d (class, round instance) pairs" % n)
    ctx.exits, ctx.wall = 0, 0.0
    return ctx


def analyze_truncflag(facts, fty):
    """C06/C11: the flag "digits were dropped" is honoured by the middle stage.
    Eisel-Lemire (`lemire::lemire::<F>`), entered with many_digits = true and a non-zero significand: every path to a return either
    declines (biased exponent provably negative), or has called compute_float twice, the second time on significand + 1 (interval shifted
    by exactly one at both ends), and has compared the two results (`PartialEq::ne/eq` of ExtendedFloat), or went through compute_error.
    Bellerophon (`bellerophon::bellerophon::<F>`), same entry condition: at every call of error_is_accurate the error estimate is at
    least one whole unit of the significand in the estimate's own unit (`error_scale()`, read from the code): the dropped digits are
    worth up to one unit of w, which normalisation can only enlarge."""
    ctx = Ctx(facts, "valid")
    ctx.record = True
    compact = "compact" in facts.config
    dpath = "minimal_lexical::bellerophon::bellerophon" if compact else "minimal_lexical::lemire::lemire"
    insts = find_insts(facts, dpath, fty)
    dummy = {"dpath": dpath, "path": dpath.rsplit("::", 1)[-1], "targs": [], "krate": "minimal_lexical"}
    if not insts:
        ctx.oblige("post:truncation flag: stage present", False, dummy, {}, "no instance of %s::<%s>" % (dpath, fty))
        ctx.exits, ctx.wall = 0, 0.0
        return ctx
    inst = insts[0]

    def pre(st, fr):
        a1 = st.env.get((fr, 1))
        d = G.ptr.get(a1) if isinstance(a1, int) else None
        if d and d[0] == "loc":
            st.env[d[1] + (("f", NUM_),)] = new_int(1, (1 << 63))
            st.env[d[1] + (("f", NUE),)] = new_int(-(1 << 31), (1 << 31) - 1)
            st.env[d[1] + (("f", NUD),)] = const_int(1)
    G.reset()
    if compact:
        scale = None
        from audit.roles import actual, CANON_EIA, CANON_SCALE
        eia = actual(facts, CANON_EIA)
        for m in find_insts(facts, actual(facts, CANON_SCALE)):
            c1 = analyze_fn(facts, m, "valid", ctx=ctx)
            for st, rv in c1.exit_states:
                if isinstance(rv, int) and rv in G.base and st.get_iv(rv)[0] == st.get_iv(rv)[1]:
                    scale = st.get_iv(rv)[0]
        G.reset()
        ctx.arg_log = {eia: []}
        c2 = analyze_fn(facts, inst, "valid", ctx=ctx, pre=pre)
        calls = ctx.arg_log[eia]
        ctx.arg_log = None
        los = [a[0][0] for _f, a in calls if a and a[0] is not None]
        good = scale is not None and scale >= 1 and bool(calls) and len(los) == len(calls) and min(los) >= scale
        ctx.oblige("post:truncation flag widens the error estimate by at least one unit of the significand", good, inst, inst.get("span"),
                   "error_scale() = %s; lower bounds of the estimate at the %d call(s) of error_is_accurate with many_digits set: %s" % (scale, len(calls), sorted(set(los))[:6]))
    else:
        ctx.mark_calls = {"lemire::compute_float": "#compute_float", "lemire::compute_error": "compute_error",
                          "::ne": "cmp", "::eq": "cmp"}
        c2 = analyze_fn(facts, inst, "valid", ctx=ctx, pre=pre, keep_paths=True)
        ctx.mark_calls = None
        bad = []
        for st, rv in c2.exit_states:
            declined = False
            if isinstance(rv, Fields):
                e = rv.d.get((("f", EFE),))
                if isinstance(e, int) and e in G.base and st.get_iv(e)[1] < 0:
                    declined = True
            if declined or ("visited", "compute_error") in st.ghost:
                continue
            cnt = st.ghost.get(("visited", "#compute_float"))
            n = st.get_iv(cnt)[0] if cnt is not None else 0
            w0, w1 = st.ghost.get(("arg", "#compute_float", 0, 1)), st.ghost.get(("arg", "#compute_float", 1, 1))
            shifted = False
            if w0 is not None and w1 is not None:
                A, B = st.get_iv(w0), st.get_iv(w1)
                shifted = B == (A[0] + 1, A[1] + 1)
            if not (n >= 2 and shifted and ("visited", "cmp") in st.ghost):
                bad.append("an exit that may be definite after %d call(s) of compute_float%s%s" % (n, "" if shifted else ", second significand not first + 1", "" if ("visited", "cmp") in st.ghost else ", results not compared"))
        ctx.oblige("post:truncated significand accepted only if w and w+1 were both evaluated and compared", not bad and bool(c2.exit_states), inst, inst.get("span"),
                   "; ".join(sorted(set(bad))[:3]) or "%d exits" % len(c2.exit_states))
    ctx.exits, ctx.wall = 0, 0.0
    return ctx


def analyze_hi64_classes(facts):
    """C12, top-64-bit extraction from one and two limbs: the first limb r0 is partitioned by its number of leading zeros (64 classes covering
    every non-zero value), the second limb r1 into {0}, [1, 2^(64-ls) - 1] (its bits that fall off the result are non-zero) and the rest.
    On each class: the value is normalised (top bit set), and equals r0 << ls exactly when r1 contributes nothing; the 'lower bits non-zero'
    flag is false for r1 = 0 and true when the dropped part of r1 is non-zero."""
    ctx = Ctx(facts, "valid")
    ctx.record = True
    h1 = find_insts(facts, "minimal_lexical::bigint::u64_to_hi64_1")
    h2 = find_insts(facts, "minimal_lexical::bigint::u64_to_hi64_2")
    dummy = {"dpath": "minimal_lexical::bigint::u64_to_hi64_2", "path": "u64_to_hi64_2", "targs": [], "krate": "minimal_lexical"}
    if not h1 or not h2:
        ctx.oblige("post:hi64 helpers present", False, dummy, {}, "no instance of u64_to_hi64_1 / u64_to_hi64_2")
        ctx.exits, ctx.wall = 0, 0.0
        return ctx
    top = 1 << 64

    def run1(inst, ivs):
        G.reset()
        ov = {i + 1: (lambda st, key, lo=lo, hi=hi: new_int(lo, hi)) for i, (lo, hi) in enumerate(ivs)}
        c2 = analyze_fn(facts, inst, "valid", overrides=ov, ctx=ctx)
        val = flag = None
        for st, rv in c2.exit_states:
            if not isinstance(rv, Fields):
                return None, None
            v, f = rv.d.get((("f", 0),)), rv.d.get((("f", 1),))
            if not (isinstance(v, int) and v in G.base and isinstance(f, int) and f in G.base):
                return None, None
            V, Fl = st.get_iv(v), st.get_iv(f)
            val = V if val is None else (min(val[0], V[0]), max(val[1], V[1]))
            flag = Fl if flag is None else (min(flag[0], Fl[0]), max(flag[1], Fl[1]))
        return val, flag

    bad = []
    n = 0
    for ls in range(64):
        lo0, hi0 = 1 << (63 - ls), (1 << (64 - ls)) - 1
        # one limb
        val, flag = run1(h1[0], [(lo0, hi0)])
        n += 1
        if not (val is not None and val[0] >= 1 << 63 and val == (lo0 << ls, hi0 << ls) and flag == (0, 0)):
            bad.append("u64_to_hi64_1 ls=%d: value %s flag %s" % (ls, val, flag))
        # two limbs
        cut = 1 << (64 - ls)                 # r1 = a * cut + b: a goes into the value, b is dropped
        for r1c, want_flag, exact in (((0, 0), (0, 0), True), ((1, min(cut, top) - 1), (1, 1), ls == 0)):
            val, flag = run1(h2[0], [(lo0, hi0), r1c])
            n += 1
            okv = val is not None and val[0] >= 1 << 63 and (not exact or val == (lo0 << ls, hi0 << ls))
            if not (okv and flag == want_flag):
                bad.append("u64_to_hi64_2 ls=%d r1 in %s: value %s flag %s (flag must be %s)" % (ls, r1c, val, flag, want_flag))
        if ls > 0:
            val, flag = run1(h2[0], [(lo0, hi0), (cut, top - 1)])
            n += 1
            if not (val is not None and val[0] >= 1 << 63):
                bad.append("u64_to_hi64_2 ls=%d r1 >= 2^%d: value %s not normalised" % (ls, 64 - ls, val))
    ctx.oblige("post:hi64 of one and two limbs on the leading-zero classes", not bad, h2[0], h2[0].get("span"),
               "; ".join(bad[:3]) or "%d class runs" % n)
    ctx.exits, ctx.wall = 0, 0.0
    return ctx


def analyze_masks(facts):
    """C18, bit-mask helpers for all widths 0..=64: the width range is partitioned into {0},{1},[2,62],{63},{64}; on each class the abstract
    result of lower_n_mask / lower_n_halfway / nth_bit must lie inside the hull of the definition (2^n - 1, 2^(n-1) or 0, 2^n) over that class.
    Exact on the boundary widths, an interval inclusion on [2,62]."""
    ctx = Ctx(facts, "valid")
    ctx.record = True
    spec = {
        "lower_n_mask": (lambda n: (1 << n) - 1, 64),
        "lower_n_halfway": (lambda n: 0 if n == 0 else 1 << (n - 1), 64),
        "nth_bit": (lambda n: 1 << n, 63),
    }
    for nm, (fn, top) in spec.items():
        insts = find_insts(facts, "minimal_lexical::mask::" + nm)
        if not insts:
            ctx.oblige("post:mask helper present: " + nm, False, {"dpath": "minimal_lexical::mask::" + nm, "path": nm, "targs": [], "krate": "minimal_lexical"}, {}, "no instance")
            continue
        inst = insts[0]
        classes = [(0, 0), (1, 1), (2, top - 2), (top - 1, top - 1), (top, top)]
        covered = 0
        for lo, hi in classes:
            covered += hi - lo + 1
            G.reset()
            c2 = analyze_fn(facts, inst, "valid", overrides={1: (lambda st, key, lo=lo, hi=hi: new_int(lo, hi))}, ctx=ctx)
            got = None
            for st, rv in c2.exit_states:
                if isinstance(rv, int) and rv in G.base:
                    r = st.get_iv(rv)
                    got = r if got is None else (min(got[0], r[0]), max(got[1], r[1]))
                else:
                    got = None
                    break
            want = (min(fn(lo), fn(hi)), max(fn(lo), fn(hi)))
            ok = got is not None and want[0] <= got[0] and got[1] <= want[1]
            ctx.oblige("post:mask %s on widths [%d,%d]" % (nm, lo, hi), ok, inst, inst.get("span"), "result %s, definition requires within %s" % (got, want))
        ctx.oblige("post:mask classes of %s cover widths 0..=%d" % (nm, top), covered == top + 1, inst, inst.get("span"), "%d widths" % covered)
    ctx.exits = 0
    ctx.wall = 0.0
    return ctx


def report(ctx, out=sys.stdout, only_failed=True):
    n = len(ctx.obs)
    bad = [o for o in ctx.obs.values() if o.failed]
    print("obligations: %d sites, %d with failures; instances visited %d; exits %d; paths ended in panic %d; %.1fs" % (
        n, len(bad), len(ctx.insts_visited), getattr(ctx, "exits", -1), ctx.paths_ended_in_panic, getattr(ctx, "wall", 0)), file=out)
    for o in sorted(ctx.obs.values(), key=lambda o: o.key):
        if only_failed and not o.failed:
            continue
        print("  %s %s  [%d/%d]  %s" % ("FAIL" if o.failed else "ok  ", o.key, o.proven, o.visits, o.detail[:200]), file=out)
    if ctx.unmodelled:
        print("unmodelled:", dict(ctx.unmodelled), file=out)
    if ctx.notes:
        print("notes:", dict(ctx.notes), file=out)




# ---------------------------------------------------------------------------
# modular entry points
# ---------------------------------------------------------------------------
def find_insts(facts, dpath, targ=None):
    out = []
    for m in facts.mono.values():
        if m["dpath"] == dpath and "blocks" in m:
            if targ is None or any(t.get("k") == "float" and ("f%d" % t["bits"]) == targ for t in m.get("targs", [])):
                out.append(m)
    return out


def stackvec_inv(st, key, cap):
    """INV(v): length <= capacity and slots [0, length) initialised (ghost init = length)"""
    ln = new_int(0, cap)
    st.env[key + (("f", 0),)] = new_obj(("array", ("n", cap)))
    st.env[key + (("f", 0), ("g", "init"))] = ln
    st.env[key + (("f", 1),)] = ln
    return ln


def mk_arg(st, ty, key, facts, model, idx, overrides):
    """materialise an argument of type `ty` at location `key`; returns the value to bind"""
    if idx in overrides:
        return overrides[idx](st, key)
    k = ty.get("k")
    r = trange(ty)
    if r is not None:
        return new_int(*r)
    if k == "float":
        return new_top()
    if k in ("ref", "ptr"):
        to = ty["to"]
        if to.get("k") == "slice":
            et = trange(to["elem"])
            return new_ptr(("slice", ("ext", "arg%d" % idx, et, None), const_int(0), new_int(0, A1_BOUND)))
        if to.get("k") == "adt":
            tk = key + ("pointee",)
            init_adt(st, to, tk, facts)
            return new_ptr(("loc", tk))
        if to.get("k") in ("int", "bool", "float"):
            v = new_int(*trange(to)) if trange(to) else new_top()
            st.env[key + ("pointee",)] = v
            return new_ptr(("loc", key + ("pointee",)))
        return new_top()
    if k == "adt":
        if "slice::Iter<" in ty.get("s", "") or "slice::iter::Iter<" in ty.get("s", ""):
            rint, rfrac = byte_regions(model)
            reg = rint if idx == 1 else rfrac
            return new_obj(("iter", reg, new_int(0, A1_BOUND), "y", "n", ("L", "arg%d" % idx)))
        init_adt(st, ty, key, facts)
        from .engine import Agg
        return Agg(key)
    return None


def init_adt(st, ty, key, facts):
    name = ty.get("name", "")
    cap = facts.const_int("bigint::BIGINT_LIMBS")
    if name.endswith("stackvec::StackVec"):
        stackvec_inv(st, key, cap)
    elif name.endswith("heapvec::HeapVec"):
        from .modular import heap_inv
        heap_inv(st, key + (("f", 0),))
    elif name.endswith("bigint::Bigint"):
        if "alloc" not in facts.config:
            stackvec_inv(st, key + (("f", 0),), cap)
        else:
            from .modular import heap_inv
            heap_inv(st, key + (("f", 0), ("f", 0)))


def analyze_fn(facts, inst, model, overrides=None, ctx=None, pre=None, keep_paths=False):
    G.reset() if ctx is None else None
    ctx = ctx or Ctx(facts, model)
    ctx.keep_root_paths = keep_paths
    ctx.arg_atoms = {}
    I = Interp(ctx)
    st = St()
    fr = next(G.frames)
    afr = next(G.frames)
    from .engine import Agg, snapshot
    from audit.contracts import contract_for
    pre_c = contract_for(inst["dpath"]) or {}
    for i in range(1, inst["argc"] + 1):
        ty = inst["locals"][i]
        v = mk_arg(st, ty, (afr, i), facts, model, i, overrides or {})
        if i in pre_c and isinstance(v, int):
            st.set_iv(v, pre_c[i][0], pre_c[i][1])
        if isinstance(v, Agg):
            v = snapshot(st, v)
        write(st, (fr, i), v)
        if isinstance(v, int):
            ctx.arg_atoms[i] = v
    if pre:
        pre(st, fr)
    ctx.entry_cells = {k: a for k, a in st.env.items() if len(k) > 3 and k[:3] == (afr, 1, "pointee")}
    t0 = time.time()
    I.mod.active.add(inst["id"])
    ctx.root_frame = fr
    ctx.arg_frame = afr
    exits = I.run_fn(inst, fr, [st])
    I.mod.active.discard(inst["id"])
    # the vector invariant must hold again at every exit of an entry point: for `&mut` vector arguments and for returned vectors
    saved = ctx.record
    ctx.record = True
    for i in range(1, inst["argc"] + 1):
        ty = inst["locals"][i]
        if ty.get("k") == "ref" and ty.get("mut"):
            for vk in I.mod.vec_keys(ty["to"], (afr, i, "pointee")):
                for s2, _rv in exits:
                    I.mod.check_inv(s2, vk, inst, inst.get("span"), "at exit (&mut argument)")
    for s2, rv in exits:
        if isinstance(rv, Fields):
            I.mod.shape_of(s2, rv, inst["locals"][0], inst)
    ctx.record = saved
    ctx.wall = time.time() - t0
    ctx.exits = len(exits)
    ctx.exit_states = exits
    return ctx


def main_fn(argv):
    from mlxsa import facts as F
    cfg, mode, dpath, model = argv[:4]
    targ = argv[4] if len(argv) > 4 and not argv[4].startswith("--") else None
    f = F.build(cfg, mode)
    for inst in find_insts(f, dpath, targ):
        if "Filter<" in inst["name"] or "Chain<" in inst["name"]:
            continue
        print("==", inst["name"])
        ctx = analyze_fn(f, inst, model)
        report(ctx, only_failed="--all" not in argv)


if __name__ == "__main__":
    sys.path.insert(0, "/verif")
    from mlxsa import facts as F
    if sys.argv[1] == "fn":
        main_fn(sys.argv[2:])
        sys.exit(0)
    if sys.argv[1] == "roundcls":
        f = F.build(sys.argv[2], sys.argv[3])
        for fty in ("f32", "f64"):
            report(analyze_round_classes(f, fty), only_failed="--all" not in sys.argv)
        sys.exit(0)
    if sys.argv[1] == "truncflag":
        f = F.build(sys.argv[2], sys.argv[3])
        for fty in ("f32", "f64"):
            report(analyze_truncflag(f, fty), only_failed="--all" not in sys.argv)
        sys.exit(0)
    if sys.argv[1] == "window":
        f = F.build(sys.argv[2], sys.argv[3])
        for fty in ("f32", "f64"):
            report(analyze_window_classes(f, fty), only_failed="--all" not in sys.argv)
        sys.exit(0)
    if sys.argv[1] == "hi64":
        f = F.build(sys.argv[2], sys.argv[3])
        report(analyze_hi64_classes(f), only_failed="--all" not in sys.argv)
        sys.exit(0)
    if sys.argv[1] == "masks":
        f = F.build(sys.argv[2], sys.argv[3])
        report(analyze_masks(f), only_failed="--all" not in sys.argv)
        sys.exit(0)
    if sys.argv[1] == "bits":
        f = F.build(sys.argv[2], sys.argv[3])
        for fty in ("f32", "f64"):
            ctx = analyze_bits(f, fty)
            report(ctx, only_failed="--all" not in sys.argv)
        sys.exit(0)
    if sys.argv[1] == "fe":
        from mlxsa import facts as F
        f = F.build(sys.argv[2], sys.argv[3], frontends=True)
        ctx = analyze_frontend(f, sys.argv[4])
        report(ctx, only_failed="--all" not in sys.argv)
        sys.exit(0)
    cfg, mode, root, model = sys.argv[1:5]
    f = F.build(cfg, mode)
    ctx = analyze_root(f, root, model)
    report(ctx, only_failed="--all" not in sys.argv)

