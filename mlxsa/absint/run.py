"""Entry points of E4: whole-program roots and modular entry points."""
import os
import sys
import time

sys.path.insert(0, os.path.dirname(os.path.dirname(os.path.dirname(os.path.abspath(__file__)))))

from .domain import G, St, new_int, const_int, new_ptr, new_obj, new_top, trange
from .engine import Ctx, Interp, Fields, write, A1_BOUND


def byte_regions(model):
    if model == "valid":
        return (("ext", "int", (0x30, 0x39), (0x31, 0x39)), ("ext", "frac", (0x30, 0x39), None))
    return (("ext", "int", (0, 255), None), ("ext", "frac", (0, 255), None))


def analyze_root(facts, root_name, model, ctx=None):
    """abstractly execute root_f32/root_f64(integer: &[u8], fraction: &[u8], exponent: i32)"""
    G.reset()
    ctx = ctx or Ctx(facts, model)
    I = Interp(ctx)
    rid = facts.root_id(root_name)
    inst = facts.mono[rid]
    st = St()
    fr = next(G.frames)
    rint, rfrac = byte_regions(model)
    st.env[(fr, 1)] = new_ptr(("slice", rint, const_int(0), new_int(0, A1_BOUND)))
    st.env[(fr, 2)] = new_ptr(("slice", rfrac, const_int(0), new_int(0, A1_BOUND)))
    st.env[(fr, 3)] = new_int(-(1 << 31), (1 << 31) - 1)
    t0 = time.time()
    exits = I.run_fn(inst, fr, [st])
    ctx.wall = time.time() - t0
    ctx.exits = len(exits)
    return ctx


def report(ctx, out=sys.stdout, only_failed=True):
    n = len(ctx.obs)
    bad = [o for o in ctx.obs.values() if o.failed]
    print("obligations: %d sites, %d with failures; instances visited %d; exits %d; paths ended in panic %d; %.1fs" % (
        n, len(bad), len(ctx.insts_visited), getattr(ctx, "exits", -1), ctx.paths_ended_in_panic, getattr(ctx, "wall", 0)), file=out)
    for o in sorted(ctx.obs.values(), key=lambda o: o.key):
        if only_failed and not o.failed:
            continue
        print("  %s %s  [%d/%d]  %s" % ("FAIL" if o.failed else "ok  ", o.key, o.proven, o.visits, o.detail[:200]), file=out)
    if ctx.unmodelled:
        print("unmodelled:", dict(ctx.unmodelled), file=out)
    if ctx.notes:
        print("notes:", dict(ctx.notes), file=out)




# ---------------------------------------------------------------------------
# modular entry points
# ---------------------------------------------------------------------------
def find_insts(facts, dpath, targ=None):
    out = []
    for m in facts.mono.values():
        if m["dpath"] == dpath and "blocks" in m:
            if targ is None or any(t.get("k") == "float" and ("f%d" % t["bits"]) == targ for t in m.get("targs", [])):
                out.append(m)
    return out


def stackvec_inv(st, key, cap):
    """INV(v): length <= capacity and slots [0, length) initialised (ghost init = length)"""
    ln = new_int(0, cap)
    st.env[key + (("f", 0),)] = new_obj(("array", ("n", cap)))
    st.env[key + (("f", 0), ("g", "init"))] = ln
    st.env[key + (("f", 1),)] = ln
    return ln


def mk_arg(st, ty, key, facts, model, idx, overrides):
    """materialise an argument of type `ty` at location `key`; returns the value to bind"""
    if idx in overrides:
        return overrides[idx](st, key)
    k = ty.get("k")
    r = trange(ty)
    if r is not None:
        return new_int(*r)
    if k == "float":
        return new_top()
    if k in ("ref", "ptr"):
        to = ty["to"]
        if to.get("k") == "slice":
            et = trange(to["elem"])
            return new_ptr(("slice", ("ext", "arg%d" % idx, et, None), const_int(0), new_int(0, A1_BOUND)))
        if to.get("k") == "adt":
            tk = key + ("pointee",)
            init_adt(st, to, tk, facts)
            return new_ptr(("loc", tk))
        if to.get("k") in ("int", "bool", "float"):
            v = new_int(*trange(to)) if trange(to) else new_top()
            st.env[key + ("pointee",)] = v
            return new_ptr(("loc", key + ("pointee",)))
        return new_top()
    if k == "adt":
        if "slice::Iter<" in ty.get("s", "") or "slice::iter::Iter<" in ty.get("s", ""):
            rint, rfrac = byte_regions(model)
            reg = rint if idx == 1 else rfrac
            return new_obj(("iter", reg, new_int(0, A1_BOUND), "y", "n"))
        init_adt(st, ty, key, facts)
        from .engine import Agg
        return Agg(key)
    return None


def init_adt(st, ty, key, facts):
    name = ty.get("name", "")
    cap = facts.const_int("bigint::BIGINT_LIMBS")
    if name.endswith("stackvec::StackVec"):
        stackvec_inv(st, key, cap)
    elif name.endswith("bigint::Bigint"):
        if "alloc" not in facts.config:
            stackvec_inv(st, key + (("f", 0),), cap)


def analyze_fn(facts, inst, model, overrides=None, ctx=None, pre=None):
    G.reset() if ctx is None else None
    ctx = ctx or Ctx(facts, model)
    I = Interp(ctx)
    st = St()
    fr = next(G.frames)
    afr = next(G.frames)
    from .engine import Agg, snapshot
    from audit.contracts import contract_for
    pre_c = contract_for(inst["dpath"]) or {}
    for i in range(1, inst["argc"] + 1):
        ty = inst["locals"][i]
        v = mk_arg(st, ty, (afr, i), facts, model, i, overrides or {})
        if i in pre_c and isinstance(v, int):
            st.set_iv(v, pre_c[i][0], pre_c[i][1])
        if isinstance(v, Agg):
            v = snapshot(st, v)
        write(st, (fr, i), v)
    if pre:
        pre(st, fr)
    t0 = time.time()
    I.mod.active.add(inst["id"])
    exits = I.run_fn(inst, fr, [st])
    I.mod.active.discard(inst["id"])
    ctx.wall = time.time() - t0
    ctx.exits = len(exits)
    ctx.exit_states = exits
    return ctx


def main_fn(argv):
    from mlxsa import facts as F
    cfg, mode, dpath, model = argv[:4]
    targ = argv[4] if len(argv) > 4 and not argv[4].startswith("--") else None
    f = F.build(cfg, mode)
    for inst in find_insts(f, dpath, targ):
        if "Filter<" in inst["name"] or "Chain<" in inst["name"]:
            continue
        print("==", inst["name"])
        ctx = analyze_fn(f, inst, model)
        report(ctx, only_failed="--all" not in argv)


if __name__ == "__main__":
    sys.path.insert(0, "/verif")
    from mlxsa import facts as F
    if sys.argv[1] == "fn":
        main_fn(sys.argv[2:])
        sys.exit(0)
    cfg, mode, root, model = sys.argv[1:5]
    f = F.build(cfg, mode)
    ctx = analyze_root(f, root, model)
    report(ctx, only_failed="--all" not in sys.argv)

