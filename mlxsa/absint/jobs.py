"""Run E4 analyses as independent jobs on a process pool and collect serialisable results."""
import os
import sys
import time
import traceback
from concurrent.futures import ProcessPoolExecutor

HERE = os.path.dirname(os.path.abspath(__file__))
sys.path.insert(0, os.path.dirname(os.path.dirname(HERE)))


def _pre_round(st, fr):
    """C18 precondition: significand with its top bit set, biased exponent whose subnormal shift is at most 64"""
    from mlxsa.absint.domain import G
    p = st.env.get((fr, 1))
    d = G.ptr.get(p)
    if d and d[0] == "loc":
        from mlxsa.absint import run as R
        m = st.env.get(d[1] + (("f", R.EFM),))
        e = st.env.get(d[1] + (("f", R.EFE),))
        if m is None:
            from mlxsa.absint.domain import new_int
            m = st.env[d[1] + (("f", R.EFM),)] = new_int(1 << 63, (1 << 64) - 1)
            e = st.env[d[1] + (("f", R.EFE),)] = new_int(-63, 1 << 20)
        else:
            st.set_iv(m, 1 << 63, (1 << 64) - 1)
            st.set_iv(e, -63, 1 << 20)


def _pre_moderate(st, fr):
    """moderate stage entry: non-zero significand (a zero significand is the other literal-zero case), any exponent"""
    from mlxsa.absint.domain import G
    a1 = st.env.get((fr, 1))
    d = G.ptr.get(a1) if isinstance(a1, int) else None
    if d and d[0] == "loc":            # bellerophon(&Number)
        from mlxsa.absint import run as R
        m = st.env.get(d[1] + (("f", R.NUM_),))
        if m is None:
            from mlxsa.absint.domain import new_int
            st.env[d[1] + (("f", R.NUM_),)] = new_int(1, (1 << 64) - 1)
            st.env[d[1] + (("f", R.NUE),)] = new_int(-(1 << 31), (1 << 31) - 1)
            st.env[d[1] + (("f", R.NUD),)] = new_int(0, 1)
        else:
            st.set_iv(m, 1, (1 << 64) - 1)
    else:                              # compute_float(q, w)
        w = st.env.get((fr, 2))
        if isinstance(w, int):
            st.set_iv(w, 1, (1 << 64) - 1)


def _pre_pos(st, fr):
    a = st.env.get((fr, 2))
    if isinstance(a, int):
        st.set_iv(a, 1, 1)


def _pre_neg(st, fr):
    a = st.env.get((fr, 2))
    if isinstance(a, int):
        st.set_iv(a, 0, 0)


def _pre_pristine(st, fr):
    from mlxsa.absint.run import _pre_snapshot
    _pre_snapshot(st, fr)


_PRE = {"pristine": _pre_pristine, "round": _pre_round, "moderate": _pre_moderate, "pos": _pre_pos, "neg": _pre_neg}


def _run(job):
    """job = dict(config, mode, model, kind='root'|'fn', target, targ=None, frontends=False)"""
    t0 = time.time()
    try:
        from mlxsa import facts as F
        from mlxsa.absint import run
        f = F.build(job["config"], job["mode"], frontends=job.get("frontends", False), repo=os.environ.get("MLX_REPO"))
        run.bind_fields(f)
        out = []
        if job["kind"] == "root":
            ctxs = [(job["target"], run.analyze_root(f, job["target"], job["model"]))]
        elif job["kind"] == "roundcls":
            ctxs = [("round classes " + job["target"], run.analyze_round_classes(f, job["target"]))]
        elif job["kind"] == "truncflag":
            ctxs = [("truncation flag " + job["target"], run.analyze_truncflag(f, job["target"]))]
        elif job["kind"] == "window":
            ctxs = [("window classes " + job["target"], run.analyze_window_classes(f, job["target"]))]
        elif job["kind"] == "hi64":
            ctxs = [("hi64 classes", run.analyze_hi64_classes(f))]
        elif job["kind"] == "masks":
            ctxs = [("masks", run.analyze_masks(f))]
        elif job["kind"] == "bits":
            ctxs = [("bits " + job["target"], run.analyze_bits(f, job["target"]))]
        elif job["kind"] == "frontend":
            ctxs = [(job["target"], run.analyze_frontend(f, job["target"]))]
            for name, ctx in ctxs:
                run.frontend_postconditions(ctx, f, job["target"])
        else:
            insts = [m for m in run.find_insts(f, job["target"], job.get("targ"))
                     if "Filter<" not in m["name"] and "Chain<" not in m["name"]]
            if not insts:
                return {"job": job, "error": "no instance of %s in the monomorphic program" % job["target"], "wall": time.time() - t0}
            ctxs = []
            for m in insts:
                ctx0 = None
                if job.get("post") == "slow":
                    from mlxsa.absint.engine import Ctx
                    from mlxsa.absint.domain import G
                    G.reset()
                    ctx0 = Ctx(f, job["model"])
                    ctx0.mark_calls = {"slow::positive_digit_comp": "digit_comp", "slow::negative_digit_comp": "digit_comp"}
                    ctx0.keep_results = {"slow::scientific_exponent": "scientific_exponent"}
                if job.get("post") == "cutoff":
                    from mlxsa.absint.engine import Ctx
                    from mlxsa.absint.domain import G
                    G.reset()
                    ctx0 = Ctx(f, job["model"])
                    ctx0.cmp_log = []
                ctx = run.analyze_fn(f, m, job["model"], pre=_PRE.get(job.get("pre")), keep_paths=job.get("post") in ("cutoff", "slow") or (job.get("post") == "truncation" and job["target"].endswith("parse_mantissa")), ctx=ctx0)
                if job.get("post") == "slow":
                    run.slow_postconditions(ctx, m, f)
                # post-conditions read atoms of the exit states: evaluate them before the next analysis resets the atom tables
                if job.get("post") == "truncation":
                    run.truncation_postconditions(ctx, m)
                if job.get("post") == "failure-unchanged":
                    run.failure_unchanged_postconditions(ctx, m)
                if job.get("post") == "round":
                    run.round_postconditions(ctx, m, f)
                if job.get("post") == "cutoff":
                    run.cutoff_postconditions(ctx, m, f)
                    run.protocol_postconditions(ctx, m, f)
                    if m["dpath"].endswith("lemire::compute_float"):
                        run.tie_window_postconditions(ctx, m, f)
                if job.get("post") in ("sat+", "sat-"):
                    run.saturation_postconditions(ctx, m, job["post"] == "sat+")
                ctxs.append((m["name"], ctx))
        for name, ctx in ctxs:
            out.append({
                "entry": name,
                "obs": [{"key": o.key, "kind": o.kind, "fn": o.fn, "snip": o.snip, "loc": o.loc, "proven": o.proven,
                         "failed": o.failed, "visits": o.visits, "detail": o.detail, "fail_callers": sorted(o.fail_callers)} for o in ctx.obs.values()],
                "unmodelled": dict(ctx.unmodelled),
                "notes": dict(ctx.notes),
                "insts": len(ctx.insts_visited),
                "exits": getattr(ctx, "exits", -1),
                "wall": getattr(ctx, "wall", 0.0),
            })
        return {"job": job, "results": out, "wall": time.time() - t0, "facts_sha": f.sha[:16]}
    except Exception:
        return {"job": job, "error": traceback.format_exc()[-3000:], "wall": time.time() - t0}


def run_jobs(jobs, workers=None):
    workers = workers or min(len(jobs), max(1, (os.cpu_count() or 4) - 1))
    if len(jobs) == 1:
        return [_run(jobs[0])]
    with ProcessPoolExecutor(max_workers=workers) as ex:
        return list(ex.map(_run, jobs))
