"""Run E4 analyses as independent jobs on a process pool and collect serialisable results."""
import os
import sys
import time
import traceback
from concurrent.futures import ProcessPoolExecutor

HERE = os.path.dirname(os.path.abspath(__file__))
sys.path.insert(0, os.path.dirname(os.path.dirname(HERE)))


def _run(job):
    """job = dict(config, mode, model, kind='root'|'fn', target, targ=None, frontends=False)"""
    t0 = time.time()
    try:
        from mlxsa import facts as F
        from mlxsa.absint import run
        f = F.build(job["config"], job["mode"], frontends=job.get("frontends", False), repo=os.environ.get("MLX_REPO"))
        out = []
        if job["kind"] == "root":
            ctxs = [(job["target"], run.analyze_root(f, job["target"], job["model"]))]
        else:
            insts = [m for m in run.find_insts(f, job["target"], job.get("targ"))
                     if "Filter<" not in m["name"] and "Chain<" not in m["name"]]
            if not insts:
                return {"job": job, "error": "no instance of %s in the monomorphic program" % job["target"], "wall": time.time() - t0}
            ctxs = [(m["name"], run.analyze_fn(f, m, job["model"])) for m in insts]
        for name, ctx in ctxs:
            out.append({
                "entry": name,
                "obs": [{"key": o.key, "kind": o.kind, "fn": o.fn, "snip": o.snip, "loc": o.loc, "proven": o.proven,
                         "failed": o.failed, "visits": o.visits, "detail": o.detail} for o in ctx.obs.values()],
                "unmodelled": dict(ctx.unmodelled),
                "notes": dict(ctx.notes),
                "insts": len(ctx.insts_visited),
                "exits": getattr(ctx, "exits", -1),
                "wall": getattr(ctx, "wall", 0.0),
            })
        return {"job": job, "results": out, "wall": time.time() - t0, "facts_sha": f.sha[:16]}
    except Exception:
        return {"job": job, "error": traceback.format_exc()[-3000:], "wall": time.time() - t0}


def run_jobs(jobs, workers=None):
    workers = workers or min(len(jobs), max(1, (os.cpu_count() or 4) - 1))
    if len(jobs) == 1:
        return [_run(jobs[0])]
    with ProcessPoolExecutor(max_workers=workers) as ex:
        return list(ex.map(_run, jobs))
