"""Pretty-printer for the exported monomorphic MIR (debugging aid)."""
import sys


def ty(t):
    k = t.get("k")
    if k == "int":
        return ("i" if t["signed"] else "u") + str(t["bits"])
    if k == "bool":
        return "bool"
    if k == "float":
        return "f%d" % t["bits"]
    if k == "ref":
        return "&" + ("mut " if t["mut"] else "") + ty(t["to"])
    if k == "ptr":
        return "*" + ("mut " if t["mut"] else "const ") + ty(t["to"])
    if k == "tuple":
        return "(" + ", ".join(ty(e) for e in t["elems"]) + ")"
    if k == "adt":
        return t["s"]
    if k == "slice":
        return "[" + ty(t["elem"]) + "]"
    if k == "array":
        return "[%s; %s]" % (ty(t["elem"]), t["len"])
    if k in ("closure", "fndef"):
        return k + ":" + t["name"]
    return t.get("s", k)


def place(p):
    s = "_%d" % p["l"]
    for e in p["p"]:
        if e == "deref":
            s = "(*%s)" % s
        elif "f" in e:
            s += ".%d" % e["f"]
        elif "variant" in e:
            s = "(%s as v%d)" % (s, e["variant"])
        elif "idx" in e:
            s += "[_%d]" % e["idx"]
        else:
            s += str(e)
    return s


def op(o):
    if "copy" in o:
        return place(o["copy"])
    if "move" in o:
        return "move " + place(o["move"])
    if "const" in o:
        c = o["const"]
        if "v" in c:
            return "const %s_%s" % (c["v"], ty(c["ty"]))
        if "fn" in c:
            return "fn " + c["fn"]
        if "val" in c:
            return "const<%s>" % str(c["val"])[:60]
        return "const " + ty(c["ty"])
    return str(o)


def rv(r):
    k = r["rv"]
    if k == "use":
        return op(r["a"])
    if k == "bin":
        return "%s(%s, %s)" % (r["op"], op(r["a"]), op(r["b"]))
    if k == "un":
        return "%s(%s)" % (r["op"], op(r["a"]))
    if k == "cast":
        return "%s as %s (%s)" % (op(r["a"]), ty(r["to"]), r["kind"])
    if k in ("ref", "rawptr"):
        return "&%s %s" % (r["bk"], place(r["place"]))
    if k == "discr":
        return "discriminant(%s)" % place(r["place"])
    if k == "agg":
        return "%s{%s}" % (r["kind"], ", ".join(op(o) for o in r["ops"]))
    if k == "repeat":
        return "[%s; %s]" % (op(r["a"]), r["n"])
    return str(r)


def dump(m, out=sys.stdout):
    print("fn #%d %s  [%s] kind=%s unsafe=%s" % (m["id"], m["name"], m["krate"], m["kind"], m["unsafe"]), file=out)
    if "leaf" in m:
        print("  leaf:", m["leaf"], file=out)
        return
    for i, t in enumerate(m["locals"]):
        print("  let _%d: %s%s" % (i, ty(t), "  (arg)" if 1 <= i <= m["argc"] else ""), file=out)
    for bi, b in enumerate(m["blocks"]):
        print("  bb%d:" % bi, file=out)
        for s in b["s"]:
            if s["k"] == "assign":
                print("    %s = %s" % (place(s["place"]), rv(s["rv"])), file=out)
            else:
                print("    %s" % {k: v for k, v in s.items() if k != "span"}, file=out)
        t = b["t"]
        k = t["k"]
        if k == "call":
            print("    %s = call #%s %s(%s) -> bb%s" % (place(t["dest"]), t["callee"], t["name"], ", ".join(op(a) for a in t["args"]), t["t"]), file=out)
        elif k == "switch":
            print("    switch %s %s otherwise bb%d" % (op(t["d"]), t["arms"], t["otherwise"]), file=out)
        elif k == "assert":
            print("    assert(%s == %s, %s) -> bb%d" % (op(t["cond"]), t["expected"], t["msg"]["a"], t["t"]), file=out)
        elif k == "drop":
            print("    drop(%s) -> bb%d" % (place(t["place"]), t["t"]), file=out)
        elif k == "goto":
            print("    goto bb%d" % t["t"], file=out)
        else:
            print("    %s" % k, file=out)


if __name__ == "__main__":
    sys.path.insert(0, "/verif")
    from mlxsa import facts
    f = facts.build(sys.argv[1], sys.argv[2], frontends=True)
    pats = sys.argv[3:]
    for m in f.mono.values():
        if any(p in m["name"] for p in pats):
            dump(m)
            print()
