"""Evidence files, violation lines, known findings."""
import hashlib
import json
import os
import time

VERIF = os.path.dirname(os.path.dirname(os.path.abspath(__file__)))
EVID = os.environ.get("MLX_EVID_DIR") or os.path.join(VERIF, "evidence")
KNOWN = os.path.join(VERIF, "known_findings.txt")


def load_known():
    """finding: property=<id> key=<exact key> :: <text>   (suppresses exactly that key)
       fixed:   property=<id> <commit> <text>              (suppresses nothing)"""
    out = {}
    if not os.path.exists(KNOWN):
        return out
    for line in open(KNOWN):
        line = line.strip()
        if not line.startswith("finding:"):
            continue
        body = line[len("finding:"):].strip()
        try:
            prop = body.split("property=", 1)[1].split()[0]
            key = body.split("key=", 1)[1].split(" :: ", 1)[0].strip()
            text = body.split(" :: ", 1)[1] if " :: " in body else ""
        except IndexError:
            continue
        out.setdefault(prop, {})[key] = text
    return out


class Report:
    def __init__(self, pid, tier):
        self.pid = pid
        self.tier = tier
        self.t0 = time.time()
        self.groups = []       # (group name, [Ob])
        self.notes = []
        self.analysed = {}
        self.floors = []       # (name, got, floor)

    def add(self, group, obs):
        self.groups.append((group, list(obs)))

    def floor(self, name, got, floor):
        """fail closed when a rule matches fewer instances than were confirmed by hand"""
        self.floors.append((name, got, floor))

    def note(self, s):
        self.notes.append(s)

    def finish(self, level, explanation, assumptions, trusted_base=None, checker_cmd=None, extra=None):
        from .consts import Ob
        allobs = []
        for g, obs in self.groups:
            for o in obs:
                allobs.append((g, o))
        for name, got, floor in self.floors:
            allobs.append(("floors", Ob("floor:" + name, got >= floor, "got %d, floor %d" % (got, floor),
                                        "F:instance count must not fall below the number confirmed when the rule was frozen")))
        known = load_known().get(self.pid, {})
        viol, knownhit = [], []
        for g, o in allobs:
            if not o.ok:
                k = "%s/%s" % (g, o.key)
                if k in known:
                    knownhit.append((k, o, known[k]))
                else:
                    viol.append((k, o))
        seed = int(os.environ.get("VERIF_SEED", "0") or 0)
        total = len(allobs)
        discharged = sum(1 for _, o in allobs if o.ok)
        rules = sorted(set(o.rule for _, o in allobs if o.rule))
        # distinct non-trivial = distinct rule instances (group+key)
        distinct = len(set((g, o.key) for g, o in allobs))
        samples = []
        seen_rules = set()
        for g, o in allobs:
            if o.rule not in seen_rules and len(samples) < 12:
                seen_rules.add(o.rule)
                samples.append({"group": g, **o.as_dict()})
        cov = {
            "explanation": explanation,
            "obligations": total,
            "discharged": discharged,
            "evaluations": total,
            "distinct_nontrivial": distinct,
            "rule": "one obligation per (configuration group, rule instance); distinct = distinct (group, key) pairs; every obligation is decided from facts extracted from /repo's current tree",
            "samples": samples,
            "rules": rules,
            "by_group": {g: {"obligations": len(obs), "failed": sum(1 for o in obs if not o.ok)} for g, obs in self.groups},
            "floors": [{"name": n, "got": g, "floor": f} for n, g, f in self.floors],
            "notes": self.notes,
            "analysed": self.analysed,
            "known_findings_matched": [k for k, _, _ in knownhit],
            "exhaustive": True,
        }
        if trusted_base is not None:
            cov["trusted_base"] = trusted_base
        if checker_cmd is not None:
            cov["checker_cmd"] = checker_cmd
        if extra:
            cov.update(extra)
        ev = {
            "property_id": self.pid,
            "tier": self.tier,
            "seed": seed,
            "level": level,
            "coverage": cov,
            "assumptions": assumptions,
            "wall_s": round(time.time() - self.t0, 3),
            "violations": len(viol),
        }
        os.makedirs(EVID, exist_ok=True)
        with open(os.path.join(EVID, self.pid + ".json"), "w") as f:
            json.dump(ev, f, indent=1, sort_keys=False)
        for k, o, text in knownhit:
            print("KNOWN-FINDING: property=%s %s :: %s (%s)" % (self.pid, k, text, o.detail))
        print("%s %s: %d obligations, %d discharged, %d violations, %d known findings, %.1fs" % (
            self.pid, self.tier, total, discharged, len(viol), len(knownhit), time.time() - self.t0))
        if viol:
            os.makedirs(os.path.join(EVID, "replay"), exist_ok=True)
            payload = [{"key": k, **o.as_dict()} for k, o in viol]
            h = hashlib.sha256(json.dumps(payload, sort_keys=True).encode()).hexdigest()[:12]
            path = os.path.join(EVID, "replay", "%s-%s.json" % (self.pid, h))
            with open(path, "w") as f:
                json.dump({"property": self.pid, "tier": self.tier, "violations": payload}, f, indent=1)
            for k, o in viol[:40]:
                print("  violated: %s | %s | %s | rule %s" % (k, o.site, o.detail, o.rule))
            print("VIOLATION property=%s replay=%s" % (self.pid, path))
            return 1
        return 0
