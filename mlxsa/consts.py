"""E2: constant and table rules.

Every value comes from rustc's constant evaluation of /repo's current tree
(facts group 2); every expected value is recomputed here from its mathematical
definition with Python big integers.  No source text is parsed.
"""
from fractions import Fraction


class Ob:
    """One obligation: a rule instance with verdict."""
    __slots__ = ("key", "ok", "detail", "rule", "site")

    def __init__(self, key, ok, detail="", rule="", site=""):
        self.key = key
        self.ok = bool(ok)
        self.detail = detail
        self.rule = rule
        self.site = site

    def as_dict(self):
        return {"key": self.key, "ok": self.ok, "detail": self.detail, "rule": self.rule, "site": self.site}


def ieee(facts, fty):
    """(P, w, bias, p, total_bits) from the compiler's own f32/f64 parameters."""
    v = facts.consts["IEEE_F32" if fty == "f32" else "IEEE_F64"]
    P, max_exp, _min_exp, bits = (int(x) for x in v)
    p = P - 1
    w = bits - 1 - p
    bias = max_exp - 1
    assert bias == (1 << (w - 1)) - 1, "IEEE parameters inconsistent"
    return P, w, bias, p, bits


def _site(fty, name):
    return "src/num.rs: impl Float for %s :: %s" % (fty, name)


def fc(facts, fty, name):
    return facts.float_const(fty, name)


# ---------------------------------------------------------------------------
# K-rules: format constants (C01, C02, C17, C18)
# ---------------------------------------------------------------------------
def format_rules(facts, fty):
    P, w, bias, p, bits = ieee(facts, fty)
    obs = []

    def eq(name, expect, why):
        got = fc(facts, fty, name)
        obs.append(Ob("%s::%s" % (fty, name), got == expect,
                      "got %d, definition gives %d" % (got, expect), "K:%s = %s" % (name, why), _site(fty, name)))

    eq("MANTISSA_SIZE", p, "P-1")
    eq("EXPONENT_BIAS", bias + p, "bias + p")
    eq("DENORMAL_EXPONENT", 1 - (bias + p), "1 - EXPONENT_BIAS")
    eq("MAX_EXPONENT", ((1 << w) - 1) - (bias + p), "(2^w - 1) - EXPONENT_BIAS")
    eq("SIGN_MASK", 1 << (p + w), "1 << (p+w)")
    eq("EXPONENT_MASK", ((1 << w) - 1) << p, "(2^w-1) << p")
    eq("HIDDEN_BIT_MASK", 1 << p, "1 << p")
    eq("MANTISSA_MASK", (1 << p) - 1, "2^p - 1")
    eq("CARRY_MASK", 1 << (p + 1), "1 << (p+1)")
    eq("INFINITE_POWER", (1 << w) - 1, "2^w - 1")
    eq("MINIMUM_EXPONENT", -bias, "-bias")
    return obs


def _max_k(pred):
    k = 0
    while pred(k + 1):
        k += 1
    return k


def fastpath_rules(facts, fty):
    """one-sided: only the direction whose violation must change some result"""
    P, w, bias, p, bits = ieee(facts, fty)
    obs = []
    mm = fc(facts, fty, "MAX_MANTISSA_FAST_PATH")
    obs.append(Ob("%s::MAX_MANTISSA_FAST_PATH" % fty, mm <= (1 << P), "got %d, bound 2^%d" % (mm, P),
                  "K:MAX_MANTISSA_FAST_PATH <= 2^P (all integers up to it are exact floats)", _site(fty, "MAX_MANTISSA_FAST_PATH")))
    kexact = _max_k(lambda k: 5 ** k < (1 << P))  # 10^k exactly representable
    mx = fc(facts, fty, "MAX_EXPONENT_FAST_PATH")
    mn = fc(facts, fty, "MIN_EXPONENT_FAST_PATH")
    obs.append(Ob("%s::MAX_EXPONENT_FAST_PATH" % fty, 0 <= mx <= kexact, "got %d, largest exact power of ten %d" % (mx, kexact),
                  "K:0 <= MAX_EXPONENT_FAST_PATH <= max{k: 5^k < 2^P}", _site(fty, "MAX_EXPONENT_FAST_PATH")))
    obs.append(Ob("%s::MIN_EXPONENT_FAST_PATH" % fty, -kexact <= mn <= 0, "got %d, bound %d" % (mn, -kexact),
                  "K:-max{k: 5^k < 2^P} <= MIN_EXPONENT_FAST_PATH <= 0", _site(fty, "MIN_EXPONENT_FAST_PATH")))
    dg = fc(facts, fty, "MAX_EXPONENT_DISGUISED_FAST_PATH")
    obs.append(Ob("%s::MAX_EXPONENT_DISGUISED_FAST_PATH" % fty, mx <= dg and dg - mx <= 19,
                  "disguised %d - max %d = %d" % (dg, mx, dg - mx),
                  "K:0 <= DISGUISED - MAX_EXPONENT_FAST_PATH <= 19 (10^shift must fit u64)", _site(fty, "MAX_EXPONENT_DISGUISED_FAST_PATH")))
    return obs


def tie_window_rules(facts, fty):
    P, w, bias, p, bits = ieee(facts, fty)
    obs = []
    kneg = _max_k(lambda k: 5 ** k < (1 << (64 - P)))
    kpos = _max_k(lambda k: 5 ** k <= (1 << (P + 1)))
    mn = fc(facts, fty, "MIN_EXPONENT_ROUND_TO_EVEN")
    mx = fc(facts, fty, "MAX_EXPONENT_ROUND_TO_EVEN")
    obs.append(Ob("%s::MIN_EXPONENT_ROUND_TO_EVEN" % fty, mn <= -kneg, "got %d, needs <= %d" % (mn, -kneg),
                  "K:MIN_EXPONENT_ROUND_TO_EVEN <= -max{k: 2^P * 5^k < 2^64} (a narrower window loses real ties)", _site(fty, "MIN_EXPONENT_ROUND_TO_EVEN")))
    obs.append(Ob("%s::MAX_EXPONENT_ROUND_TO_EVEN" % fty, mx >= kpos, "got %d, needs >= %d" % (mx, kpos),
                  "K:MAX_EXPONENT_ROUND_TO_EVEN >= max{k: 5^k <= 2^(P+1)}", _site(fty, "MAX_EXPONENT_ROUND_TO_EVEN")))
    return obs


def cutoff_rules(facts, fty):
    """decimal exponent cut-offs imply zero / infinity (C01, C02, C07)"""
    P, w, bias, p, bits = ieee(facts, fty)
    obs = []
    S = fc(facts, fty, "SMALLEST_POWER_OF_TEN")
    L = fc(facts, fty, "LARGEST_POWER_OF_TEN")
    # any (w+1) <= 2^64 times 10^(S-1) must be at most half the smallest subnormal
    half_min = Fraction(1, 1 << (bias + p))
    lhs = Fraction(1 << 64) * Fraction(10) ** (S - 1)
    obs.append(Ob("%s::SMALLEST_POWER_OF_TEN" % fty, lhs <= half_min,
                  "2^64 * 10^%d %s 2^-%d" % (S - 1, "<=" if lhs <= half_min else ">", bias + p),
                  "K:2^64 * 10^(S-1) <= 2^(-bias-p): every q < S is a literal zero", _site(fty, "SMALLEST_POWER_OF_TEN")))
    inf_thr = Fraction(1 << (bias + 1))
    lhs2 = Fraction(10) ** (L + 1)
    obs.append(Ob("%s::LARGEST_POWER_OF_TEN" % fty, lhs2 >= inf_thr,
                  "10^%d %s 2^%d" % (L + 1, ">=" if lhs2 >= inf_thr else "<", bias + 1),
                  "K:10^(L+1) >= 2^(bias+1): every q > L with w >= 1 is infinite", _site(fty, "LARGEST_POWER_OF_TEN")))
    feats = facts.config
    if "compact" not in feats:
        s5 = facts.const_int("table_lemire::SMALLEST_POWER_OF_FIVE")
        l5 = facts.const_int("table_lemire::LARGEST_POWER_OF_FIVE")
        obs.append(Ob("%s::SMALLEST_POWER_OF_TEN>=table" % fty, S >= s5, "S=%d table starts %d" % (S, s5),
                      "K:SMALLEST_POWER_OF_TEN >= SMALLEST_POWER_OF_FIVE (table coverage)", _site(fty, "SMALLEST_POWER_OF_TEN")))
        obs.append(Ob("%s::LARGEST_POWER_OF_TEN<=table" % fty, L <= l5, "L=%d table ends %d" % (L, l5),
                      "K:LARGEST_POWER_OF_TEN <= LARGEST_POWER_OF_FIVE (table coverage)", _site(fty, "LARGEST_POWER_OF_TEN")))
    else:
        bp = facts.consts["table_bellerophon::BASE10_POWERS"]
        step, bbias = int(bp["step"]), int(bp["bias"])
        nlarge = len(bp["large"]["slice"])
        lhs = Fraction((1 << 64)) * Fraction(10) ** (-bbias - 1)
        obs.append(Ob("%s::bellerophon underflow cut-off" % fty, lhs <= half_min,
                      "2^64 * 10^%d vs 2^-%d" % (-bbias - 1, bias + p),
                      "K:2^64 * 10^(-BIAS-1) <= 2^(-bias-p): exponent + BIAS < 0 is a literal zero", "src/table_bellerophon.rs: BASE10_BIAS"))
        lhs2 = Fraction(10) ** (step * nlarge - bbias)
        obs.append(Ob("%s::bellerophon overflow cut-off" % fty, lhs2 >= inf_thr,
                      "10^%d vs 2^%d" % (step * nlarge - bbias, bias + 1),
                      "K:10^(STEP*len(LARGE)-BIAS) >= 2^(bias+1): large_index >= len is infinite", "src/table_bellerophon.rs: BASE10_LARGE_MANTISSA"))
    return obs


def max_midpoint_digits(P, bias, p):
    """largest number of significant decimal digits of any midpoint between adjacent floats"""
    best = 0
    # half-ulp exponents e (midpoint = M * 2^e, M odd). e ranges over all binades.
    emin = -bias - p  # half of smallest subnormal spacing
    # smallest binade (subnormal + first normal) shares spacing 2^(1-bias-p); midpoints (2m+1)*2^(-bias-p)
    for e in range(emin, 1):
        # largest odd M for this half-ulp exponent
        M = (1 << (p + 2)) - 1
        n = M * 5 ** (-e)
        d = len(str(n))
        if d > best:
            best = d
        # digits are monotone decreasing in e; stop early when clearly below
        if d + 2 < best:
            break
    return best


def max_digits_rules(facts, fty):
    P, w, bias, p, bits = ieee(facts, fty)
    need = max_midpoint_digits(P, bias, p)
    got = fc(facts, fty, "MAX_DIGITS")
    return [Ob("%s::MAX_DIGITS" % fty, got >= need, "got %d, longest midpoint expansion has %d digits" % (got, need),
               "K:MAX_DIGITS >= longest exact decimal expansion of a midpoint between adjacent floats",
               _site(fty, "MAX_DIGITS"))], need


def capacity_rules(facts):
    """Appendix B: big-integer capacity side condition (C04 audited sites)."""
    import math
    obs = []
    limbs = facts.const_int("bigint::BIGINT_LIMBS")
    lbits = facts.const_int("bigint::LIMB_BITS")
    cap = limbs * lbits
    need_all = 0
    for fty in ("f32", "f64"):
        P, w, bias, p, bits = ieee(facts, fty)
        md = fc(facts, fty, "MAX_DIGITS")
        S = fc(facts, fty, "SMALLEST_POWER_OF_TEN")
        L = fc(facts, fty, "LARGEST_POWER_OF_TEN")
        a = (10 ** (md + 1)).bit_length()
        b = (P + 1) + (5 ** max(md - S, 0)).bit_length()
        c = (10 ** max(L + 20, 0)).bit_length()
        need = max(a, b, c) + 64 + lbits
        need_all = max(need_all, need)
        obs.append(Ob("%s::bigint capacity" % fty, need <= cap,
                      "required %d bits (digits %d, b+h %d, positive %d) capacity %d" % (need, a, b, c, cap),
                      "K:max(bits(10^(MAX_DIGITS+1)), P+1+bits(5^(MAX_DIGITS-S)), bits(10^(L+20))) + 64 + LIMB_BITS <= BIGINT_LIMBS*LIMB_BITS",
                      "src/bigint.rs: BIGINT_BITS"))
    obs.append(Ob("BIGINT_LIMBS fits u16", limbs <= 0xffff, "BIGINT_LIMBS=%d" % limbs,
                  "K:BIGINT_LIMBS <= 65535 (StackVec.length is u16)", "src/bigint.rs: BIGINT_LIMBS"))
    return obs


# ---------------------------------------------------------------------------
# C14: tables
# ---------------------------------------------------------------------------
def exact_float_bits(n, P, w, bias, p):
    """IEEE bits of the positive integer n if exactly representable, else None."""
    if n == 0:
        return 0
    bl = n.bit_length()
    tz = (n & -n).bit_length() - 1
    if bl - tz > P:
        return None
    e = bl - 1
    if e > bias:
        return None
    frac = (n << p) >> e if e <= p else n >> (e - p)
    frac &= (1 << p) - 1
    return ((e + bias) << p) | frac


def pow5_128(q):
    if q >= 0:
        v = 5 ** q
        while v < (1 << 127):
            v <<= 1
        while v >= (1 << 128):
            v >>= 1
        return v
    p5 = 5 ** (-q)
    z = (p5 - 1).bit_length()  # smallest z with 2^z >= p5
    if q >= -27:
        return (1 << (z + 127)) // p5 + 1
    c = (1 << (2 * z + 128)) // p5 + 1
    while c >= (1 << 128):
        c >>= 1
    return c


def trunc64_pow10(k):
    """truncated, normalised 64-bit significand of 10^k"""
    if k >= 0:
        v = 10 ** k
        bl = v.bit_length()
        return v >> (bl - 64) if bl >= 64 else v << (64 - bl)
    d = 10 ** (-k)
    s = d.bit_length() + 64
    v = (1 << s) // d
    return v >> (v.bit_length() - 64)


def floor_log2_pow10(k):
    if k >= 0:
        return (10 ** k).bit_length() - 1
    return -((10 ** (-k)).bit_length())


def table_rules(facts):
    """C14: every stored constant equals its definition. Returns (obs, counts)."""
    obs = []
    c = facts.consts
    compact = "compact" in facts.config
    if not compact:
        s5 = facts.const_int("table_lemire::SMALLEST_POWER_OF_FIVE")
        l5 = facts.const_int("table_lemire::LARGEST_POWER_OF_FIVE")
        n5 = facts.const_int("table_lemire::N_POWERS_OF_FIVE")
        tab = c["table_lemire::POWER_OF_FIVE_128"]
        obs.append(Ob("N_POWERS_OF_FIVE", n5 == l5 - s5 + 1 == len(tab), "N=%d L-S+1=%d len=%d" % (n5, l5 - s5 + 1, len(tab)),
                      "T:N_POWERS_OF_FIVE = LARGEST - SMALLEST + 1 = len(POWER_OF_FIVE_128)", "src/table_lemire.rs"))
        for i, ent in enumerate(tab):
            q = s5 + i
            hi, lo = int(ent[0]), int(ent[1])
            got = (hi << 64) | lo
            want = pow5_128(q)
            obs.append(Ob("POWER_OF_FIVE_128[q=%d]" % q, got == want and (got >> 127) == 1,
                          "got 0x%032x want 0x%032x" % (got, want),
                          "T:128-bit truncation of 5^q (q<0: of 2^k/5^-q plus one), bit 127 set", "src/table_lemire.rs: POWER_OF_FIVE_128"))
        for name, base in (("SMALL_INT_POW5", 5), ("SMALL_INT_POW10", 10)):
            arr = c["table_small::" + name]
            for i, v in enumerate(arr):
                obs.append(Ob("%s[%d]" % (name, i), int(v) == base ** i, "got %s want %d" % (v, base ** i),
                              "T:%s[i] = %d^i" % (name, base), "src/table_small.rs: " + name))
        for fty, name in (("f32", "SMALL_F32_POW10"), ("f64", "SMALL_F64_POW10")):
            P, w, bias, p, bits = ieee(facts, fty)
            arr = c["table_small::" + name]
            used = max(fc(facts, fty, "MAX_EXPONENT_FAST_PATH"), -fc(facts, fty, "MIN_EXPONENT_FAST_PATH"))
            obs.append(Ob("%s covers fast path" % name, used < len(arr), "needs index %d, len %d" % (used, len(arr)),
                          "T:max(MAX_EXPONENT_FAST_PATH, -MIN_EXPONENT_FAST_PATH) < len(table)", "src/table_small.rs: " + name))
            for i, v in enumerate(arr):
                if i > used:
                    continue  # padding entries are never read
                want = exact_float_bits(10 ** i, P, w, bias, p)
                got = int(v["fbits"])
                obs.append(Ob("%s[%d]" % (name, i), want is not None and got == want,
                              "got bits 0x%x want %s" % (got, "0x%x" % want if want is not None else "unrepresentable"),
                              "T:%s[i] is exactly 10^i" % name, "src/table_small.rs: " + name))
        step = facts.const_int("table_small::LARGE_POW5_STEP")
        limbs = [int(x) for x in c["table_small::LARGE_POW5"]]
        lbits = facts.const_int("bigint::LIMB_BITS")
        got = sum(v << (lbits * i) for i, v in enumerate(limbs))
        obs.append(Ob("LARGE_POW5", got == 5 ** step and limbs[-1] != 0 and all(0 <= v < (1 << lbits) for v in limbs),
                      "limbs encode %d-bit value; 5^%d has %d bits" % (got.bit_length(), step, (5 ** step).bit_length()),
                      "T:LARGE_POW5 (little-endian limbs, normalised) = 5^LARGE_POW5_STEP", "src/table_small.rs: LARGE_POW5"))
    else:
        bp = c["table_bellerophon::BASE10_POWERS"]
        small = [int(x) for x in bp["small"]["slice"]]
        large = [int(x) for x in bp["large"]["slice"]]
        sint = [int(x) for x in bp["small_int"]["slice"]]
        step, bbias = int(bp["step"]), int(bp["bias"])
        mult, shift = int(bp["log2"]), int(bp["log2_shift"])
        obs.append(Ob("BASE10 len(small)=step", len(small) == step and len(sint) == step, "len small %d, small_int %d, step %d" % (len(small), len(sint), step),
                      "T:len(small) = len(small_int) = STEP", "src/table_bellerophon.rs"))
        for i, v in enumerate(small):
            obs.append(Ob("BASE10_SMALL_MANTISSA[%d]" % i, v == trunc64_pow10(i), "got %d want %d" % (v, trunc64_pow10(i)),
                          "T:truncated normalised 64-bit significand of 10^i", "src/table_bellerophon.rs: BASE10_SMALL_MANTISSA"))
        for i, v in enumerate(sint):
            obs.append(Ob("BASE10_SMALL_INT_POWERS[%d]" % i, v == 10 ** i, "got %d want %d" % (v, 10 ** i),
                          "T:small_int[i] = 10^i", "src/table_bellerophon.rs: BASE10_SMALL_INT_POWERS"))
        for j, v in enumerate(large):
            k = j * step - bbias
            obs.append(Ob("BASE10_LARGE_MANTISSA[%d] (10^%d)" % (j, k), v == trunc64_pow10(k) and v >> 63 == 1,
                          "got %d want %d" % (v, trunc64_pow10(k)),
                          "T:truncated normalised 64-bit significand of 10^(j*STEP-BIAS), top bit set", "src/table_bellerophon.rs: BASE10_LARGE_MANTISSA"))
        ks = set(range(0, step)) | set(j * step - bbias for j in range(len(large)))
        for k in sorted(ks):
            got = (mult * k) >> shift
            obs.append(Ob("log2 multiplier k=%d" % k, got == floor_log2_pow10(k), "got %d want %d" % (got, floor_log2_pow10(k)),
                          "T:(LOG2_MULT*k) >> LOG2_SHIFT = floor(k*log2(10)) for every k the tables use", "src/table_bellerophon.rs: BASE10_LOG2_MULT"))
    return obs


def cross_config_rules(facts_by_cfg):
    """C05 item 3: constants shared by name agree across configurations."""
    obs = []
    names = {}
    for cfg, f in facts_by_cfg.items():
        for k, v in f.consts.items():
            if k.startswith("IEEE_"):
                continue
            names.setdefault(k, {})[cfg] = v
    for k, per in sorted(names.items()):
        vals = list(per.values())
        same = all(v == vals[0] for v in vals)
        obs.append(Ob("xcfg:" + k, same, "present in %d configurations" % len(per),
                      "X:a constant with the same name has the same value in every configuration", k))
    return obs


# ---------------------------------------------------------------------------
# L-rules: the split (head + tail) constants of the bundled libm pow (C14, no_std compact builds)
def libm_rules(facts):
    """powf/powd compute log2(x) and 2^y in head+tail arithmetic.  Their constants are definitions: LG2 = ln 2, CP = 2/(3 ln 2),
    IVLN2 = 1/ln 2, DP = log2(1.5); each single constant must be within one unit in the last place of its definition, and each
    head+tail pair must carry at least 14 bits beyond the working precision (the tails exist for exactly that; the tree's pairs
    carry 16 to 34).  A tail that lost its low bits makes pow(10, k) inexact for some table-free power of ten."""
    import struct
    from decimal import Decimal, getcontext
    from fractions import Fraction
    getcontext().prec = 120
    ln2 = Decimal(2).ln()
    defs = {"LG2": ("ln 2", ln2), "CP": ("2/(3 ln 2)", Decimal(2) / (3 * ln2)), "IVLN2": ("1/ln 2", 1 / ln2), "DP": ("log2(1.5)", (Decimal(3) / 2).ln() / ln2)}

    def val(c):
        b = int(c["fbits"])
        x = struct.unpack("<d", struct.pack("<Q", b))[0] if c["w"] == 64 else struct.unpack("<f", struct.pack("<I", b))[0]
        return Fraction(x)
    obs = []
    for fn, p in (("powf", 24), ("powd", 53)):
        for name, (text, d) in defs.items():
            D = Fraction(d)
            site = "src/libm.rs: %s :: %s" % (fn, name)
            try:
                if name == "DP":
                    h, l, full = val(facts.consts["libm::%s::DP_H" % fn][1]), val(facts.consts["libm::%s::DP_L" % fn][1]), None
                else:
                    h, l = val(facts.consts["libm::%s::%s_H" % (fn, name)]), val(facts.consts["libm::%s::%s_L" % (fn, name)])
                    full = val(facts.consts["libm::%s::%s" % (fn, name)])
            except (KeyError, IndexError, TypeError):
                obs.append(Ob("libm::%s::%s present" % (fn, name), False, "constant not found in the compiler's facts", "L:split constants of the bundled pow are extracted", site))
                continue
            e_pair = abs(h + l - D) / D
            obs.append(Ob("libm::%s::%s_H + %s_L" % (fn, name, name), e_pair * (1 << (p + 14)) <= 1,
                          "relative distance from %s: 2^%.1f; required <= 2^-%d" % (text, _log2(e_pair), p + 14),
                          "L:head + tail of a split constant equals its definition to at least 14 bits beyond the working precision", site))
            if full is not None:
                e1 = abs(full - D) / D
                obs.append(Ob("libm::%s::%s" % (fn, name), e1 * (1 << p) <= 1, "relative distance from %s: 2^%.1f; required <= 2^-%d" % (text, _log2(e1), p),
                              "L:a libm constant is within one unit in the last place of its definition", site))
    return obs


def _log2(fr):
    import math
    if fr == 0:
        return float("-inf")
    return math.log2(fr.numerator) - math.log2(fr.denominator)
