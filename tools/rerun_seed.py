#!/usr/bin/env python3
"""rerun_seed.py <seed id prefix> <Cxx> [<Cyy> ...]: run the named checks (quick tier) against one seeded change in a scratch worktree and
merge the outcome into seeded/<id>/meta.json (only the entries of the named checks are replaced)."""
import json, os, subprocess, sys, tempfile, shutil, glob
V = os.path.dirname(os.path.dirname(os.path.abspath(__file__)))
d = [p for p in glob.glob(os.path.join(V, "seeded", sys.argv[1] + "*")) if os.path.isdir(p)][0]
checks = sys.argv[2:]
wt = tempfile.mkdtemp(prefix="mlx-seedrun-"); os.rmdir(wt)
subprocess.run("git -C /repo worktree add -q --detach %s HEAD" % wt, shell=True, check=True)
ev = tempfile.mkdtemp(prefix="mlx-ev-")
try:
    subprocess.run("git -C %s apply %s/patch.diff" % (wt, d), shell=True, check=True)
    env = dict(os.environ, MLX_REPO=wt, MLX_EVID_DIR=ev)
    mp = os.path.join(d, "meta.json")
    m = json.load(open(mp))
    det = dict(m.get("detected_by") or {})
    for p in checks:
        r = subprocess.run([os.path.join(V, "check"), p, "--quick"], env=env, capture_output=True, text=True, cwd=V)
        det.pop(p, None)
        if r.returncode not in (0, 1):
            det[p] = "ERROR"
        elif ("VIOLATION property=%s" % p) in r.stdout:
            det[p] = [l.strip()[10:200] for l in r.stdout.splitlines() if l.startswith("  violated")][:2]
    m["detected_by"] = det
    json.dump(m, open(mp, "w"), indent=1)
    print(os.path.basename(d), "DETECTED by " + ",".join(sorted(det)) if det else "MISSED")
finally:
    subprocess.run("git -C /repo worktree remove --force %s" % wt, shell=True)
    shutil.rmtree(wt, ignore_errors=True); shutil.rmtree(ev, ignore_errors=True)
