#!/usr/bin/env python3
"""Run every claimed check (quick tier) against behaviour-preserving refactorings stored in benign/<id>/patch.diff.
A check that reports a violation on such a patch is a FALSE ALARM (or a documented audited-key limitation); results go to benign/<id>/meta.json."""
import json, os, subprocess, sys, tempfile, shutil
from concurrent.futures import ThreadPoolExecutor
V = os.path.dirname(os.path.dirname(os.path.abspath(__file__)))
only = [a for a in sys.argv[1:] if not a.startswith("--")]
claimed = json.load(open(os.path.join(V, "tools", "claimed.json")))

def one(bid):
    d = os.path.join(V, "benign", bid)
    wt = tempfile.mkdtemp(prefix="mlx-benign-"); os.rmdir(wt)
    subprocess.run("git -C /repo worktree add -q --detach %s HEAD" % wt, shell=True, check=True)
    alarms = {}
    try:
        subprocess.run("git -C %s apply %s/patch.diff" % (wt, d), shell=True, check=True)
        ev = tempfile.mkdtemp(prefix="mlx-ev-")
        env = dict(os.environ, MLX_REPO=wt, MLX_EVID_DIR=ev)
        for p in claimed:
            r = subprocess.run([os.path.join(V, "check"), p, "--quick"], env=env, capture_output=True, text=True, cwd=V)
            if r.returncode != 0:
                alarms[p] = [l.strip()[10:400] for l in r.stdout.splitlines() if l.startswith("  violated")][:6] or ["exit %d: %s" % (r.returncode, (r.stderr or r.stdout)[-300:])]
        shutil.rmtree(ev, ignore_errors=True)
    finally:
        subprocess.run("git -C /repo worktree remove --force %s" % wt, shell=True)
        shutil.rmtree(wt, ignore_errors=True)
    mp = os.path.join(d, "meta.json")
    m = json.load(open(mp)) if os.path.exists(mp) else {"id": bid}
    m["alarms"] = alarms
    json.dump(m, open(mp, "w"), indent=1)
    return bid, alarms

ids = sorted(s for s in os.listdir(os.path.join(V, "benign")) if os.path.isdir(os.path.join(V, "benign", s)) and (not only or s in only or s.split("-")[0] in only))
with ThreadPoolExecutor(max_workers=3) as ex:
    for bid, alarms in ex.map(one, ids):
        print("%-28s %s" % (bid, "SILENT" if not alarms else "ALARMS " + ",".join(sorted(alarms))))
