#!/usr/bin/env python3
"""Run every claimed check (quick tier, or --thorough) against every seeded change and record which checks detect it.
Each seed is applied in its own scratch worktree of /repo (never /repo itself).  Updates seeded/<id>/meta.json."""
import json, os, subprocess, sys, tempfile, shutil
from concurrent.futures import ThreadPoolExecutor
V = os.path.dirname(os.path.dirname(os.path.abspath(__file__)))
tier = "thorough" if "--thorough" in sys.argv else "quick"
only = [a for a in sys.argv[1:] if not a.startswith("--")]
claimed = json.load(open(os.path.join(V, "tools", "claimed.json")))

def one(seed):
    d = os.path.join(V, "seeded", seed)
    wt = tempfile.mkdtemp(prefix="mlx-seedrun-"); os.rmdir(wt)
    subprocess.run("git -C /repo worktree add -q --detach %s HEAD" % wt, shell=True, check=True)
    det = {}
    try:
        subprocess.run("git -C %s apply %s/patch.diff" % (wt, d), shell=True, check=True)
        ev = tempfile.mkdtemp(prefix="mlx-ev-")
        env = dict(os.environ, MLX_REPO=wt, MLX_EVID_DIR=ev)
        for p in claimed:
            r = subprocess.run([os.path.join(V, "check"), p, "--" + tier], env=env, capture_output=True, text=True, cwd=V)
            hit = ("VIOLATION property=%s" % p) in r.stdout
            if r.returncode not in (0, 1):
                det[p] = "ERROR"
            elif hit:
                v = [l.strip()[10:200] for l in r.stdout.splitlines() if l.startswith("  violated")]
                det[p] = v[:2]
        shutil.rmtree(ev, ignore_errors=True)
    finally:
        subprocess.run("git -C /repo worktree remove --force %s" % wt, shell=True)
        shutil.rmtree(wt, ignore_errors=True)
    mp = os.path.join(d, "meta.json")
    m = json.load(open(mp))
    m["confirmed"] = True
    m["detected_by"] = {k: v for k, v in det.items()}
    m["ran"] = "tools/confirm_seed.py (suite passes with the patch, demo fails with it and passes without it) and tools/run_seeds.py --%s" % tier
    json.dump(m, open(mp, "w"), indent=1)
    return seed, det

seeds = sorted(s for s in os.listdir(os.path.join(V, "seeded")) if os.path.isdir(os.path.join(V, "seeded", s)) and (not only or s in only or s.split("-")[0] in only))
with ThreadPoolExecutor(max_workers=4) as ex:
    for seed, det in ex.map(one, seeds):
        print("%-32s %s" % (seed, "DETECTED by " + ",".join(sorted(det)) if det else "MISSED"))
