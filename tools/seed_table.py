#!/usr/bin/env python3
"""Regenerate the seeded-change table of DESIGN.md (section 7) from seeded/*/meta.json."""
import json, os, re
V = os.path.dirname(os.path.dirname(os.path.abspath(__file__)))
rows = []
for d in sorted(os.listdir(os.path.join(V, "seeded"))):
    mp = os.path.join(V, "seeded", d, "meta.json")
    if not os.path.exists(mp):
        continue
    m = json.load(open(mp))
    det = m.get("detected_by")
    if det is None:
        col = "(not run yet)"
    elif not det:
        col = "**missed**" + (": " + m["miss_reason"] if m.get("miss_reason") else "")
    else:
        col = ", ".join("%s%s" % (k, "" if not isinstance(v, list) or not v else " (" + re.sub(r"\s+", " ", v[0].split(" | ")[1] if " | " in v[0] else v[0])[:70].replace("|", "/") + ")") for k, v in sorted(det.items()))
    if m.get("note"):
        col += " — *" + m["note"].replace("|", "/") + "*"
    rows.append("| %s | %s | %s | %s | %s |" % (d.split("-")[0], m.get("breaks_property", ""), m.get("change", "").replace("|", "/")[:150],
                                          m.get("needs_to_manifest", "").replace("|", "/")[:150], col))
metas = []
for d in sorted(os.listdir(os.path.join(V, "seeded"))):
    mp = os.path.join(V, "seeded", d, "meta.json")
    if os.path.exists(mp):
        metas.append((d.split("-")[0], json.load(open(mp))))
n_all = len(metas)
missed = [i for i, m in metas if not m.get("detected_by")]
own = [i for i, m in metas if m.get("detected_by") and m.get("breaks_property") in m["detected_by"]]
other = [i for i, m in metas if m.get("detected_by") and m.get("breaks_property") not in m["detected_by"]]
tab = ("Each change was produced by an independent sub-agent that saw only the text of one property and a scratch worktree; each compiles, passes the 38 tests,\n"
       "and comes with a demonstration (`seeded/<id>/demo.rs`) that fails with the patch and passes without it (`tools/confirm_seed.py`). The last column is the\n"
       "outcome of running every claimed check (quick tier) on a scratch worktree with the patch applied (`tools/run_seeds.py`: S01-S64 from one consistent snapshot, re-run on the final machinery wherever a later rule could change the outcome (all former misses, S01-S14 and the seeds named in section 5); S65-S79 on the final machinery); the first\n"
       "violated obligation is quoted. Of the %d seeds, %d are reported by at least one check -- %d of them by the check of the property they were written against, %d only by another check (%s) -- and %d are missed (%s). "
       "All misses are numerical decisions (reasons in the table). The seeds reported only elsewhere are caught by the clause that decides them, which is filed under a sibling property "
       "(S06: boundary classes of `round`, C18; S50: hi64 classes, C12; S71: dropped-digits flag, C06/C11; S78: capacity of the heap vector, C04/C08/C13). Several rules were built *after* a seed had shown the gap (the slow-path decision rule, the hi64 classes, the tie window as applied, wrap-free, "
       "the window-width agreement, the dropped-digits flag, the libm constants); the table shows the final state, the history is in section 5. Reports by checks other than the one\n"
       "the seed targets are mostly fail-closed side effects (an API the summaries do not know, a changed audited key) and say nothing about that other property.\n\n"
       "| seed | property it breaks | change | needs, to manifest | detected by |\n|---|---|---|---|---|\n" % (n_all, n_all - len(missed), len(own), len(other), ", ".join(other) or "none", len(missed), ", ".join(missed) or "none") + "\n".join(rows) + "\n")
p = os.path.join(V, "DESIGN.md")
s = open(p).read()
a, b = s.index("<!-- SEED-TABLE-BEGIN -->"), s.index("<!-- SEED-TABLE-END -->")
s = s[:a] + "<!-- SEED-TABLE-BEGIN -->\n" + tab + s[b:]
open(p, "w").write(s)
print("rows:", len(rows))
