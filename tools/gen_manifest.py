#!/usr/bin/env python3
"""Regenerate /verif/MANIFEST.json from the table below (single source of truth)."""
import json, os
V = os.path.dirname(os.path.dirname(os.path.abspath(__file__)))

TECH_K = "static analysis: rustc-evaluated constants and tables checked against their mathematical definitions"
TECH_E = "static analysis: effect/ownership rules over the type-checked program (MIR, resolved monomorphic call graph) with positive controls"
NOTE = "Trusted: rustc (MIR at mir-opt-level=0, const evaluation), the driver in /verif/driver, Python big integers. x86_64 only."

CHECKS = {
 "C01": ("other", "5.1", TECH_K + "; abstract interpretation of the f64 instances of the moderate stage and of round (result-shape post-conditions)",
   "Partial. Decides necessary conditions of correct f64 rounding that are visible statically: every Float-for-f64 constant equals its IEEE-derived definition or lies on the necessary side of its bound, every power-table entry equals its definition, in each configuration; every exit of the moderate stage is declined-and-normalised or definite with fields that pack without touching the exponent field, early zero/infinity exits are implied by their path's exponent bound, round() yields packable fields (never NaN). Does NOT decide that the rounding algorithms are correct."),
 "C02": ("other", "5.2", TECH_K + "; mono call-graph rule for single rounding; abstract interpretation of the f32 instances of the moderate stage and of round",
   "Partial. Same constant/table rules and result-shape post-conditions for f32, plus the single-rounding structure: no f64 value, float-to-float cast or f64-instantiated function is reachable from parse_float::<f32>. Does NOT decide the algorithms."),
 "C05": ("other", "5.5", TECH_K + "; abstract interpretation of both moderate stages for the early-out post-condition",
   "Partial. Constants shared by name agree across configurations; configuration-specific tables and cut-offs each meet their definition; the early zero/infinity exits of Eisel-Lemire and Bellerophon are each implied by the exponent bound of their path (so the two siblings agree on them); both stages account for dropped digits, and the compact-only error window sits at the width round() shifts by. Bit-equality of different algorithms is NOT decided."),
 "C06": ("other", "5.6", TECH_K,
   "Partial. MAX_DIGITS >= longest exact midpoint expansion (computed exactly) and the big-integer capacity formula. Rounding of the truncated value is NOT decided."),
 "C07": ("other", "5.7", TECH_K,
   "Partial. Decimal cut-offs imply zero/infinity for both moderate stages. Subnormal rounding results are NOT decided."),
 "C11": ("other", "5.11", TECH_K + "; abstract interpretation of the monomorphic MIR of the stage (carry-test rule, early-out post-conditions)",
   "Partial. Tie-window bounds, table coverage and table contents; every ordering test between a wrapping 64-bit sum and one of its addends in the Eisel-Lemire product is equivalent to the carry; every exit of the stage is either declined with a normalised significand or definite with fields that pack without touching the exponent field (sentinel protocol); every early zero/infinity exit is implied by the exponent bound of its path; the round-to-even window as the code applies it (effective inclusive bounds of the comparisons on q) covers the exponents with exact ties; the normalisation shift is never dropped while Bellerophon's error term is live (this rule found the repaired error-budget defect); the wrapping_add/wrapping_sub of error_is_accurate provably do not wrap (found the second repaired defect); sibling agreement between error_is_accurate and round: for every biased exponent of the subnormal range (singleton classes) and all larger exponents (one class) the width of the examined window equals the width round() shifts by; the dropped-digits flag is honoured by both stages (w and w+1 evaluated and compared in lemire; estimate of at least one significand unit in bellerophon). That a definite answer is correctly rounded is NOT decided."),
 "C12": ("other", "5.12", TECH_E,
   "Partial. No result of a fallible library call is dropped unread (MIR def-use, all configurations); 5^135 and 5^i constants exact. Exactness of carry chains is NOT decided."),
 "C14": ("proof", "5.14", "static analysis: compiler-evaluated constants checked exhaustively against definitions (no execution of the parser); abstract interpretation for the on-demand integer powers",
   "Finite set of stored power constants, each compared with an independent big-integer recomputation of its definition, from rustc's own constant evaluation of the current tree, per configuration. On-demand integer powers (compact): every u64::pow call site proven overflow-free by abstract interpretation. Bundled libm (no_std): the head+tail constants of powf/powd (ln 2, 2/(3 ln 2), 1/ln 2, log2 1.5) equal their definitions to 14 bits beyond the working precision. Not covered: exactness of powf/powd beyond their constants."),
 "C15": ("other", "5.15", TECH_E,
   "Decides the property for all inputs at once: no alloc-crate instance reachable on the monomorphic call graph from parse_float, no alloc item mentioned anywhere in the library, no indirect calls, no extern crate alloc, in every non-alloc configuration. Controls: alloc configurations and fixture."),
 "C16": ("other", "5.16", TECH_E,
   "Decides purity structurally: no mutable/interior-mutable global, no address-observing operation, generic iterators only advanced/cloned/counted, identical library call shape for Chain/Filter/slice iterators, no uninitialised-value API, asm confined. Reads below StackVec.length are decided under C13."),
 "C17": ("other", "5.17", TECH_K + "; interval abstract interpretation of the helper bodies over a finite partition of all bit patterns",
   "All mask/bias/size constants of both Float impls equal the IEEE definitions. Helper bodies (is_denormal, exponent, mantissa, slow::b, slow::bh, extended_to_float): for every class of a partition of ALL bit patterns into 26 intervals (sign x exponent-field class x fraction class) the abstract result lies inside the interval the IEEE-754 decoding assigns to that class; exact on the boundary classes (exponent field 0, 1, max-1, max; fraction 0 and all-ones), an interval inclusion inside the wide middle class. next/previous-float helpers do not exist in this crate."),
 "C18": ("other", "5.18", TECH_K,
   "Partial. Constants consumed by the rounding primitive equal their definitions. The nearest-even decision is NOT decided."),
}
TECH_A = "static analysis: abstract interpretation (intervals + difference bounds, path-sensitive, modular big-integer layer) of the monomorphic MIR; audited-site table with machine-checked side conditions"
CHECKS.update({
 "C04": ("other", "5.4", TECH_A,
   "Every panic-capable terminator (overflow/bounds/div asserts, unwrap, debug_assert!, slice indexing) reachable from parse_float::<f32|f64> in the debug-assertions+overflow-checks MIR is PROVEN unreachable/non-failing for all valid inputs (any length below 2^62, any i32 exponent) or is AUDITED with a written reason and a re-evaluated side condition over extracted constants (capacity formula, 10^19 <= 2^64, exponent ranges). All eight feature configurations (thorough); the heap back-end through a summary of alloc::vec::Vec, with the sites that need len <= BIGINT_LIMBS audited there."),
 "C07": ("other", "5.7", TECH_A + "; constant cut-off rules",
   "Partial. (1) decimal cut-offs imply zero/infinity; (2) in the exponent-bookkeeping functions every narrowing cast is value-preserving and every non-wrapping arithmetic operator cannot overflow, in debug and release MIR (this rule found the repaired `fraction_count as i32` defect). Subnormal rounding results are NOT decided."),
 "C08": ("other", "5.8", TECH_A,
   "Every unsafe operation reachable from parse_float (get_unchecked, raw writes/copies/reads, pointer offsets, from_raw_parts, set_len) is within bounds / inside the initialised prefix for arbitrary bytes, any exponent, in release and debug MIR; vector invariant inductive over the modular big-integer layer. Stack and heap back-ends (alloc::vec::Vec summarised: length, capacity, initialised prefix; set_len and raw copies checked against the capacity atom)."),
 "C13": ("other", "5.13", TECH_A + "; visibility facts",
   "Invariant clauses only: INV (length <= capacity, [0,length) initialised) is inductive over every safe StackVec method and friend, from every INV state, in debug and release MIR; representation private to its module; a failed try_push/try_extend/try_resize leaves every tracked cell of the vector unchanged and writes no memory. Heap back-end: the same with INV = length <= initialised prefix <= capacity over a summary of Vec. Element-wise equality with a reference sequence and ordering are NOT decided."),
})
CHECKS.update({
 "C19": ("other", "5.19", TECH_A + "; front-end copies extracted via rustc's pretty-printer and compiled against the library",
   "Partial. Each of the 7 copies of the shipped front-end: no panic of its own code on arbitrary bytes (loop invariants such as index <= len proven; content-dependent sites audited), the library is called on sub-slices of the input, the remainder is a sub-slice of the input, exponent saturation only when the accumulator leaves the i32 range. Grammar completeness and the value are NOT decided."),
 "C06": ("other", "5.6", TECH_A + "; exact midpoint-digit computation",
   "Partial. MAX_DIGITS >= longest exact midpoint expansion (computed exactly), capacity formula, and the truncation typestate of the 19-digit stage: at every exit of parse_number either many_digits is set or both iterators are exhausted, and at every exit of slow::parse_mantissa either both are exhausted or the digit count has reached max_digits; the sticky digit of the big-integer stage is appended only after a provably non-zero dropped byte was read; the flag is honoured by the middle stage (lemire: a truncated significand is accepted only after w and w+1 were both evaluated and compared; bellerophon: the error estimate passed to error_is_accurate is at least one significand unit). Rounding of the truncated value is NOT decided."),
 "C18": ("other", "5.18", TECH_A + "; must-pass-through rule on the monomorphic CFG",
   "Partial. (1) every path through round / round_nearest_tie_even consults the rounding callback; (2) post-condition of round for every significand with its top bit set and every exponent whose subnormal shift is <= 64: 0 <= exp <= INFINITE_POWER, mant <= HIDDEN_BIT_MASK, exp = INFINITE_POWER => mant = 0 (fields pack without overlap, never NaN), all shifts and mask widths in range; (3) constants; (4) bit-mask helpers for all widths 0..=64 by interval inclusion on the classes {0},{1},[2,62],{63},{64}; (5) exact results on the boundary classes of round (shift-64 subnormals, largest subnormal -> smallest normal, carry into the next binade, overflow to infinity) for the generic nearest-even and the truncating instances. The nearest-even decision on the remaining inputs is NOT decided."),
 "C12": ("other", "5.12", TECH_E + "; " + TECH_A,
   "Partial. Failure discipline (no fallible result dropped unread), no wrapping_* limb arithmetic, every non-wrapping operator in bigint.rs/stackvec.rs proven overflow-free and every narrowing cast value-preserving or an audited half of the widening idiom (modular, under the vector invariant), 5^135 / 5^i constants exact. Exactness of carry chains is NOT decided."),
})
E4P = ("C01", "C02", "C04", "C05", "C06", "C07", "C08", "C11", "C12", "C13", "C14", "C17", "C18", "C19")
NA = [
 ("C03", "round trip is a numerical corollary of C01/C02 on three input families; it has no code of its own and no clause whose truth is in the shape of the code"),
 ("C09", "monotonicity relates the numerical results of two runs through different algorithms; no structural clause, and per-path correct rounding is not statically decidable here"),
 ("C10", "equality of results across re-splittings is numerical; the only robust structural ingredient (no wrapping in exponent bookkeeping) is claimed under C07"),
]

def main():
    have = json.load(open(os.path.join(V, "tools", "claimed.json")))
    m = {
        "version": 1,
        "setup_cmd": "cd /verif/driver && CARGO_NET_OFFLINE=true cargo build --release --offline",
        "hooks": {
            "guard": "alexhuszagh_minimal_lexical_verif",
            "enable": "none needed: the static analysis reads the unmodified sources (no hook commits)",
            "baseline_off_cmd": "cd /repo && cargo test --workspace --no-fail-fast --offline",
            "source_commits": [],
            "add_only": True,
        },
        "engines": [
            {"name": "E1 mlx-facts", "path": "driver/", "serves_properties": sorted(have), "kind_free_text": "rustc_private driver: items, visibility, evaluated consts/statics, polymorphic MIR summaries, monomorphic MIR with resolved callees, per feature configuration and assertion mode"},
            {"name": "E2 consts", "path": "mlxsa/consts.py", "serves_properties": [p for p in sorted(have) if p in ("C01","C02","C05","C06","C07","C11","C12","C14","C17","C18","C04")], "kind_free_text": "exact recomputation of constants/tables from definitions"},
            {"name": "E3 effects", "path": "mlxsa/effects.py", "serves_properties": [p for p in sorted(have) if p in ("C02","C12","C15","C16","C08","C13")], "kind_free_text": "who-may-call / what-may-be-mentioned / def-use rules with positive-control fixture crate"},
            {"name": "E4 absint", "path": "mlxsa/absint/", "serves_properties": [p for p in sorted(have) if p in E4P], "kind_free_text": "abstract interpreter (intervals + linear facts, path-sensitive) over the monomorphic MIR"},
        ],
        "checks": [],
        "not_applicable": [{"property_id": p, "reason": r} for p, r in NA],
        "notes": "Technique family: static analysis only. See DESIGN.md for what each check decides and what it does not.",
    }
    extra_na = json.load(open(os.path.join(V, "tools", "na_extra.json"))) if os.path.exists(os.path.join(V, "tools", "na_extra.json")) else []
    for p, r in extra_na:
        m["not_applicable"].append({"property_id": p, "reason": r})
    over = {}
    op = os.path.join(V, "tools", "claims_override.json")
    if os.path.exists(op):
        over = json.load(open(op))
    for pid in sorted(have):
        cat, ref, tech, text = CHECKS[pid]
        if pid in over:
            cat, ref, tech, text = over[pid]
        m["checks"].append({
            "property_id": pid,
            "quick_cmd": "./check %s --quick" % pid,
            "thorough_cmd": "./check %s --thorough" % pid,
            "evidence_file": "evidence/%s.json" % pid,
            "engine": "E1+E2+E3" + ("+E4" if pid in E4P else ""),
            "level_claimed": {"category": cat, "text": text, "design_ref": ref},
            "level_note": NOTE,
            "technique": tech,
        })
    json.dump(m, open(os.path.join(V, "MANIFEST.json"), "w"), indent=1)
    print("manifest:", len(m["checks"]), "checks,", len(m["not_applicable"]), "not applicable")

main()
