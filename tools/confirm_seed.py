#!/usr/bin/env python3
"""Confirm a seeded change independently: in a fresh scratch worktree of /repo, (1) the pinned suite passes with the
patch, (2) the demonstration fails with the patch, (3) the demonstration passes without it.
usage: confirm_seed.py <seed dir with patch.diff, demo file(s), meta.json>   -> prints CONFIRMED / NOT-CONFIRMED"""
import json, os, shutil, subprocess, sys, tempfile

def sh(cmd, cwd=None, timeout=3000):
    r = subprocess.run(cmd, shell=True, cwd=cwd, capture_output=True, text=True, timeout=timeout)
    return r.returncode, (r.stdout + r.stderr)

def main():
    d = os.path.abspath(sys.argv[1])
    meta = json.load(open(os.path.join(d, "meta.json")))
    wt = tempfile.mkdtemp(prefix="mlx-seed-"); os.rmdir(wt)
    rc, out = sh("git -C /repo worktree add -q --detach %s HEAD" % wt)
    assert rc == 0, out
    env = "CARGO_TARGET_DIR=%s/target CARGO_NET_OFFLINE=true" % wt
    ok = True
    try:
        rc, out = sh("git -C %s apply %s/patch.diff" % (wt, d)); assert rc == 0, out
        rc, out = sh("%s cargo test --workspace --no-fail-fast --offline 2>&1 | grep -E '^test result|FAILED|^error'" % env, cwd=wt)
        suite_ok = "FAILED" not in out and "error" not in out.replace("compute_error", "") and "test result" in out
        print("suite with patch:", "pass" if suite_ok else "FAIL"); ok &= suite_ok
        for f in meta["demo_files"]:
            shutil.copy(os.path.join(d, f), os.path.join(wt, "tests", f))
        def demo():
            res = []
            for c in meta["demo_cmds"]:
                rc, out = sh("%s %s" % (env, c), cwd=wt)
                res.append(rc)
            return res
        with_patch = demo()
        print("demo with patch: exit codes", with_patch)
        ok &= any(r != 0 for r in with_patch)
        rc, out = sh("git -C %s apply -R %s/patch.diff" % (wt, d)); assert rc == 0, out
        without = demo()
        print("demo without patch: exit codes", without)
        ok &= all(r == 0 for r in without)
    finally:
        sh("git -C /repo worktree remove --force %s" % wt); shutil.rmtree(wt, ignore_errors=True)
    print("CONFIRMED" if ok else "NOT-CONFIRMED", meta["id"])
    return 0 if ok else 1
sys.exit(main())
