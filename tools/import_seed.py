#!/usr/bin/env python3
"""import_seed.py <agent out dir> <seed id> <property> <change> <needs> [demo cmd]  -> seeded/<id>/{patch.diff,demo.rs,agent_README.md,meta.json}"""
import json, os, shutil, sys
V = os.path.dirname(os.path.dirname(os.path.abspath(__file__)))
out, sid, prop, change, needs = sys.argv[1:6]
cmd = sys.argv[6] if len(sys.argv) > 6 else "cargo test --offline --test demo"
d = os.path.join(V, "seeded", sid)
os.makedirs(d, exist_ok=True)
shutil.copy(os.path.join(out, "patch.diff"), os.path.join(d, "patch.diff"))
shutil.copy(os.path.join(out, "demo.rs"), os.path.join(d, "demo.rs"))
shutil.copy(os.path.join(out, "README.md"), os.path.join(d, "agent_README.md"))
json.dump({"id": sid, "breaks_property": prop, "change": change, "needs_to_manifest": needs, "demo_files": ["demo.rs"], "demo_cmds": cmd.split(" && "),
           "origin": "independent sub-agent given only the property text and a scratch worktree", "confirmed": None, "detected_by": None},
          open(os.path.join(d, "meta.json"), "w"), indent=1)
print("imported", sid)
