#!/usr/bin/env python3
"""Apply a patch to a scratch worktree of /repo, confirm it builds and passes the
pinned tests, run the given checks against it (MLX_REPO), and clean up.

usage: mutant.py <patch.diff|-> <ID>[,<ID>...] [--tier quick|thorough] [--no-test] [--keep]
       [--sub <file> <old> <new>]...   (exact-string replacement instead of / after the patch; `-` = no patch)
       [--save <out.diff>]             (write the resulting git diff)
Prints one line per check: DETECTED / MISSED.  Never touches /repo's working tree.
"""
import os, subprocess, sys, tempfile, shutil

def sh(cmd, **kw):
    return subprocess.run(cmd, shell=True, capture_output=True, text=True, **kw)

def main():
    patch = os.path.abspath(sys.argv[1])
    props = sys.argv[2].split(",")
    tier = "quick"
    if "--tier" in sys.argv:
        tier = sys.argv[sys.argv.index("--tier") + 1]
    notest = "--no-test" in sys.argv
    wt = tempfile.mkdtemp(prefix="mlx-mut-")
    os.rmdir(wt)
    r = sh("git -C /repo worktree add -q --detach %s HEAD" % wt)
    if r.returncode:
        print(r.stderr); return 2
    try:
        if sys.argv[1] != "-":
            r = sh("git -C %s apply %s" % (wt, patch))
            if r.returncode:
                print("PATCH-FAILED", r.stderr); return 2
        a = sys.argv
        for i, x in enumerate(a):
            if x == "--sub":
                fn, old, new = a[i + 1], a[i + 2], a[i + 3]
                fp = os.path.join(wt, fn)
                src = open(fp).read()
                if src.count(old) != 1:
                    print("SUB-FAILED: %r occurs %d times in %s" % (old, src.count(old), fn)); return 2
                open(fp, "w").write(src.replace(old, new))
        if "--save" in a:
            d = sh("git -C %s diff" % wt).stdout
            open(a[a.index("--save") + 1], "w").write(d)
        if not notest:
            r = sh("cd %s && CARGO_TARGET_DIR=%s/target cargo test --workspace --no-fail-fast --offline 2>&1 | grep -E '^test result|FAILED|^error' | head -30" % (wt, wt))
            out = r.stdout
            bad = "FAILED" in out or "error" in out.replace("compute_error", "") or "test result" not in out
            print("tests:", "FAIL" if bad else "pass", "|", " ".join(out.split())[:300])
            shutil.rmtree(os.path.join(wt, "target"), ignore_errors=True)
        env = dict(os.environ, MLX_REPO=wt, MLX_EVID_DIR=tempfile.mkdtemp(prefix="mlx-ev-"))
        rc = 0
        for p in props:
            r = subprocess.run(["/verif/check", p, "--" + tier], env=env, capture_output=True, text=True, cwd="/verif")
            det = "VIOLATION property=%s" % p in r.stdout
            lines = [l for l in r.stdout.splitlines() if l.startswith("  violated")]
            print("%s %s: %s (exit %d)" % (p, tier, "DETECTED" if det else "MISSED", r.returncode))
            for l in lines[:6]:
                print("   ", l.strip()[:400])
            if r.returncode not in (0, 1):
                print(r.stdout[-1500:], r.stderr[-1500:])
        shutil.rmtree(env["MLX_EVID_DIR"], ignore_errors=True)
    finally:
        if "--keep" not in sys.argv:
            sh("git -C /repo worktree remove --force %s" % wt)
            shutil.rmtree(wt, ignore_errors=True)
    return 0

sys.exit(main())
