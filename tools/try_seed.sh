#!/bin/bash
# usage: tools/try_seed.sh <seed-dir-name> <Cxx> [--thorough]   -- apply one seeded change in a scratch worktree and run one check on it
set -e
V=$(cd "$(dirname "$0")/.." && pwd)
S=$(ls -d $V/seeded/$1* | head -1)
WT=$(mktemp -d -u /tmp/mlx-try-XXXXXX)
git -C /repo worktree add -q --detach $WT HEAD
trap 'git -C /repo worktree remove --force $WT >/dev/null 2>&1; rm -rf $WT $EV' EXIT
git -C $WT apply $S/patch.diff
EV=$(mktemp -d /tmp/mlx-ev-XXXXXX)
MLX_REPO=$WT MLX_EVID_DIR=$EV $V/check $2 ${3:---quick} || true
