#!/bin/bash
# usage: tools/try_patch.sh <dir with patch.diff> <Cxx> [<Cyy> ...]   -- apply one stored patch (seeded/ or benign/) in a scratch worktree
# and run the given checks (quick tier) on it; prints one line per check
V=$(cd "$(dirname "$0")/.." && pwd)
D=$(cd "$1" && pwd); shift
WT=$(mktemp -d -u /tmp/mlx-try-XXXXXX)
git -C /repo worktree add -q --detach $WT HEAD
EV=$(mktemp -d /tmp/mlx-ev-XXXXXX)
trap 'git -C /repo worktree remove --force $WT >/dev/null 2>&1; rm -rf $WT $EV' EXIT
git -C $WT apply $D/patch.diff || exit 2
for c in "$@"; do
  out=$(MLX_REPO=$WT MLX_EVID_DIR=$EV $V/check $c --quick)
  n=$(echo "$out" | grep -c "^  violated")
  echo "$(basename $D) $c: $([ $n -eq 0 ] && echo silent || echo "$n violations")"
  [ $n -ne 0 ] && echo "$out" | grep "^  violated" | cut -c1-400 | head -3
done
true
