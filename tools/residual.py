#!/usr/bin/env python3
"""Print the obligations of a property that are neither proven nor audited (triage aid): residual.py <ID> [--thorough]"""
import sys, os
sys.path.insert(0, os.path.dirname(os.path.dirname(os.path.abspath(__file__))))
from mlxsa import props
os.environ["MLX_RESIDUAL"] = "1"
sys.exit(props.main(sys.argv[1:]))
