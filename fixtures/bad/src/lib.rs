//! Positive controls: every rule whose expected count on minimal-lexical is zero
//! must fire on the matching function of this crate, on every run.
#![allow(dead_code, unused, clippy::all, static_mut_refs)]
use std::cell::Cell;
use std::mem::MaybeUninit;

pub static mut CACHE: u64 = 0;
pub static COUNTER: std::sync::atomic::AtomicUsize = std::sync::atomic::AtomicUsize::new(0);
thread_local! { static TL: Cell<u32> = Cell::new(0); }

/// C15: heap allocation
pub fn ctl_alloc_vec(n: usize) -> usize {
    let mut v: Vec<u64> = Vec::new();
    v.push(n as u64);
    v.len()
}
pub fn ctl_alloc_box(n: u64) -> Box<u64> {
    Box::new(n)
}
pub fn ctl_alloc_format(n: u64) -> usize {
    format!("{}", n).len()
}

/// C16: mutable global
pub fn ctl_static_mut(x: u64) -> u64 {
    unsafe {
        CACHE = CACHE.wrapping_add(x);
        CACHE
    }
}
pub fn ctl_atomic() -> usize {
    COUNTER.fetch_add(1, std::sync::atomic::Ordering::Relaxed)
}
pub fn ctl_thread_local() -> u32 {
    TL.with(|c| c.get())
}
pub fn ctl_cell_local(x: u32) -> u32 {
    let c = Cell::new(x);
    c.set(x + 1);
    c.get()
}
/// C16: address dependence
pub fn ctl_ptr_to_int(x: &[u8]) -> usize {
    x.as_ptr() as usize
}
pub fn ctl_ptr_cmp(a: &[u8], b: &[u8]) -> bool {
    a.as_ptr() < b.as_ptr()
}
pub fn ctl_ptr_transmute(a: &u8) -> usize {
    unsafe { std::mem::transmute::<&u8, usize>(a) }
}
/// C16: iterator discipline
pub fn ctl_size_hint<'a, I: Iterator<Item = &'a u8> + Clone>(it: I) -> usize {
    it.size_hint().0
}
pub fn ctl_type_dispatch<'a, I: Iterator<Item = &'a u8> + Clone + 'static>(it: I) -> bool {
    std::any::TypeId::of::<I>() == std::any::TypeId::of::<std::slice::Iter<'static, u8>>()
}
pub fn ctl_size_of<'a, I: Iterator<Item = &'a u8> + Clone>(it: I) -> usize {
    std::mem::size_of::<I>()
}
/// C16: stale memory
pub fn ctl_assume_init() -> u64 {
    let x: MaybeUninit<u64> = MaybeUninit::uninit();
    unsafe { x.assume_init() }
}
/// C02: double rounding
pub fn ctl_double_round(x: u64) -> f32 {
    x as f64 as f32
}
/// C12: dropped failure
fn fallible(x: u64) -> Option<()> {
    if x > 3 {
        None
    } else {
        Some(())
    }
}
pub fn ctl_dropped_failure(x: u64) -> u64 {
    let _ = fallible(x);
    fallible(x + 1);
    x
}
pub fn ok_used_failure(x: u64) -> Option<u64> {
    fallible(x)?;
    fallible(x + 1).unwrap();
    if fallible(x + 2).is_none() {
        return None;
    }
    Some(x)
}
/// C08: a new unsafe operation
pub fn ctl_get_unchecked(t: &[u64; 4], i: usize) -> u64 {
    unsafe { *t.get_unchecked(i) }
}
pub fn ctl_raw_write(p: *mut u64) {
    unsafe { *p = 1 }
}
pub fn ctl_asm() {
    unsafe { core::arch::asm!("nop") }
}

pub fn root_alloc(n: usize) -> usize {
    ctl_alloc_vec(n) + ctl_alloc_format(n as u64)
}
pub fn root_dyn(f: &dyn Fn(u64) -> u64, g: fn(u64) -> u64) -> u64 {
    f(1) + g(2)
}

/// C18: a rounding primitive that decides a case without consulting its callback
pub fn ctl_skip_callback<Cb: Fn(u64, i32) -> u64>(x: u64, shift: i32, cb: Cb) -> u64 {
    if shift > 64 {
        return 0;
    }
    cb(x, shift)
}
pub fn ok_always_callback<Cb: Fn(u64, i32) -> u64>(x: u64, shift: i32, cb: Cb) -> u64 {
    if shift > 64 {
        return cb(x, 64);
    }
    cb(x, shift)
}
pub fn root_callbacks(x: u64, s: i32) -> u64 {
    ctl_skip_callback(x, s, |a, b| a >> (b as u32 & 63)) + ok_always_callback(x, s, |a, b| a >> (b as u32 & 63))
}
/// C12: wrapping arithmetic on limbs
pub fn ctl_wrapping_limb(a: u64, b: u64, carry: bool) -> u64 {
    a.wrapping_add(b).wrapping_add(carry as u64)
}
/// C12: carry component of an overflowing addition dropped / kept
pub fn ctl_dropped_carry(a: u64, b: u64) -> u64 {
    let (v, _) = a.overflowing_add(b);
    v
}
pub fn ok_used_carry(a: u64, b: u64) -> (u64, u64) {
    let r = a.overflowing_add(b);
    (r.0, r.1 as u64)
}
pub fn root_carry(a: u64, b: u64) -> u64 {
    let r = ok_used_carry(a, b);
    ctl_dropped_carry(a, b) ^ r.0 ^ r.1
}
