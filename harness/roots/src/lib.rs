//! Analysis roots for the minimal-lexical static checks.
//!
//! Nothing here is ever executed: the crate only exists so that `mlx-facts`
//! sees fully monomorphic entry points (functions named `root_*`).
#![allow(dead_code, unused, clippy::all)]
#![cfg_attr(not(feature = "std"), no_std)]

/// IEEE parameters as the compiler knows them (so the checker does not carry its own copy).
pub const IEEE_F32: [i64; 4] =
    [f32::MANTISSA_DIGITS as i64, f32::MAX_EXP as i64, f32::MIN_EXP as i64, 32];
pub const IEEE_F64: [i64; 4] =
    [f64::MANTISSA_DIGITS as i64, f64::MAX_EXP as i64, f64::MIN_EXP as i64, 64];

pub fn root_f64(i: &[u8], f: &[u8], e: i32) -> f64 {
    minimal_lexical::parse_float(i.iter(), f.iter(), e)
}
pub fn root_f32(i: &[u8], f: &[u8], e: i32) -> f32 {
    minimal_lexical::parse_float(i.iter(), f.iter(), e)
}

/// Non-slice iterator shapes (C16).
pub fn root_chain_f64(a: &[u8], b: &[u8], f: &[u8], e: i32) -> f64 {
    minimal_lexical::parse_float(a.iter().chain(b.iter()), f.iter(), e)
}
pub fn root_filter_f64(i: &[u8], f: &[u8], e: i32) -> f64 {
    fn keep(c: &&u8) -> bool {
        **c != b'_'
    }
    minimal_lexical::parse_float(i.iter().filter(keep as fn(&&u8) -> bool), f.iter().filter(keep as fn(&&u8) -> bool), e)
}

#[cfg(feature = "frontends")]
#[path = "/repo/examples/simple.rs"]
mod fe_simple;
#[cfg(feature = "frontends")]
#[path = "/repo/fuzz/fuzz_targets/parse.rs"]
mod fe_fuzz;

#[cfg(feature = "frontends")]
pub fn root_fe_fuzz_f64(b: &[u8]) -> (f64, &[u8]) {
    fe_fuzz::parse_float::<f64>(b)
}
#[cfg(feature = "frontends")]
pub fn root_fe_fuzz_f32(b: &[u8]) -> (f32, &[u8]) {
    fe_fuzz::parse_float::<f32>(b)
}
