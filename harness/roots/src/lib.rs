//! Analysis roots for the minimal-lexical static checks.
//!
//! Nothing here is ever executed: the crate only exists so that `mlx-facts`
//! sees fully monomorphic entry points (functions named `root_*`).
#![allow(dead_code, unused, clippy::all)]
#![cfg_attr(not(feature = "std"), no_std)]

/// IEEE parameters as the compiler knows them (so the checker does not carry its own copy).
pub const IEEE_F32: [i64; 4] =
    [f32::MANTISSA_DIGITS as i64, f32::MAX_EXP as i64, f32::MIN_EXP as i64, 32];
pub const IEEE_F64: [i64; 4] =
    [f64::MANTISSA_DIGITS as i64, f64::MAX_EXP as i64, f64::MIN_EXP as i64, 64];

pub fn root_f64(i: &[u8], f: &[u8], e: i32) -> f64 {
    minimal_lexical::parse_float(i.iter(), f.iter(), e)
}
pub fn root_f32(i: &[u8], f: &[u8], e: i32) -> f32 {
    minimal_lexical::parse_float(i.iter(), f.iter(), e)
}

/// Non-slice iterator shapes (C16).
pub fn root_chain_f64(a: &[u8], b: &[u8], f: &[u8], e: i32) -> f64 {
    minimal_lexical::parse_float(a.iter().chain(b.iter()), f.iter(), e)
}
pub fn root_filter_f64(i: &[u8], f: &[u8], e: i32) -> f64 {
    fn keep(c: &&u8) -> bool {
        **c != b'_'
    }
    minimal_lexical::parse_float(i.iter().filter(keep as fn(&&u8) -> bool), f.iter().filter(keep as fn(&&u8) -> bool), e)
}

/// The whole public API of the fixed-capacity vector, so that every method has a monomorphic
/// instance to analyse (C13) even when `parse_float` does not reach it.
#[cfg(not(feature = "alloc"))]
pub fn root_stackvec_api(v: &mut minimal_lexical::stackvec::StackVec, w: &minimal_lexical::stackvec::StackVec, s: &[u64], x: u64, n: usize) -> usize {
    use minimal_lexical::stackvec::StackVec;
    use core::ops::{Deref, DerefMut};
    let mut acc = 0usize;
    let mut fresh = StackVec::new();
    acc += fresh.len() + fresh.capacity() + fresh.is_empty() as usize;
    if let Some(t) = StackVec::try_from(s) {
        acc += t.len();
    }
    acc += v.try_push(x).is_some() as usize;
    acc += v.pop().is_some() as usize;
    acc += v.try_extend(s).is_some() as usize;
    acc += v.try_resize(n, x).is_some() as usize;
    acc += v.hi64().0 as usize;
    acc += StackVec::from_u64(x).len();
    v.normalize();
    acc += v.is_normalized() as usize;
    acc += v.add_small(x).is_some() as usize;
    acc += v.mul_small(x).is_some() as usize;
    acc += (*v == *w) as usize;
    acc += (core::cmp::PartialOrd::partial_cmp(&*v, w) == Some(core::cmp::Ordering::Less)) as usize;
    acc += (core::cmp::Ord::cmp(&*v, w) == core::cmp::Ordering::Less) as usize;
    acc += v.deref().len() + v.deref_mut().len();
    *v *= s;
    let c = w.clone();
    acc + c.len()
}

/// big-integer operations not reached from `parse_float` (C12/C13 friends)
#[cfg(not(feature = "alloc"))]
pub fn root_bigint_api(v: &mut minimal_lexical::stackvec::StackVec, s: &[u64], x: u64, n: usize) -> usize {
    use minimal_lexical::bigint;
    let mut acc = 0usize;
    acc += bigint::small_add(v, x).is_some() as usize;
    acc += bigint::small_mul(v, x).is_some() as usize;
    acc += bigint::large_add(v, s).is_some() as usize;
    acc += bigint::large_mul(v, s).is_some() as usize;
    acc += bigint::shl(v, n).is_some() as usize;
    acc += bigint::pow(v, n as u32).is_some() as usize;
    acc += bigint::bit_length(v) as usize;
    acc += bigint::is_normalized(v) as usize;
    acc += (bigint::compare(v, s) == core::cmp::Ordering::Less) as usize;
    bigint::normalize(v);
    acc
}

/// The same for the heap-backed vector (feature alloc).
#[cfg(feature = "alloc")]
pub fn root_heapvec_api(v: &mut minimal_lexical::heapvec::HeapVec, w: &minimal_lexical::heapvec::HeapVec, s: &[u64], x: u64, n: usize) -> usize {
    use minimal_lexical::heapvec::HeapVec;
    use core::ops::{Deref, DerefMut};
    let mut acc = 0usize;
    let fresh = HeapVec::new();
    acc += fresh.len() + fresh.capacity() + fresh.is_empty() as usize;
    if let Some(t) = HeapVec::try_from(s) {
        acc += t.len();
    }
    acc += v.try_push(x).is_some() as usize;
    acc += v.pop().is_some() as usize;
    acc += v.try_extend(s).is_some() as usize;
    acc += v.try_resize(n, x).is_some() as usize;
    acc += v.hi64().0 as usize;
    acc += HeapVec::from_u64(x).len();
    v.normalize();
    acc += v.is_normalized() as usize;
    acc += v.add_small(x).is_some() as usize;
    acc += v.mul_small(x).is_some() as usize;
    acc += (*v == *w) as usize;
    acc += (core::cmp::PartialOrd::partial_cmp(&*v, w) == Some(core::cmp::Ordering::Less)) as usize;
    acc += (core::cmp::Ord::cmp(&*v, w) == core::cmp::Ordering::Less) as usize;
    acc += v.deref().len() + v.deref_mut().len();
    *v *= s;
    let c = w.clone();
    acc + c.len()
}

#[cfg(feature = "alloc")]
pub fn root_bigint_api(v: &mut minimal_lexical::heapvec::HeapVec, s: &[u64], x: u64, n: usize) -> usize {
    use minimal_lexical::bigint;
    let mut acc = 0usize;
    acc += bigint::small_add(v, x).is_some() as usize;
    acc += bigint::small_mul(v, x).is_some() as usize;
    acc += bigint::large_add(v, s).is_some() as usize;
    acc += bigint::large_mul(v, s).is_some() as usize;
    acc += bigint::shl(v, n).is_some() as usize;
    acc += bigint::pow(v, n as u32).is_some() as usize;
    acc += bigint::bit_length(v) as usize;
    acc += bigint::is_normalized(v) as usize;
    acc += (bigint::compare(v, s) == core::cmp::Ordering::Less) as usize;
    bigint::normalize(v);
    acc
}

/// The bit-mask helpers (C18), so that they have instances whether or not the rounding code still calls them.
pub fn root_mask_api(n: u64) -> u64 {
    use minimal_lexical::mask;
    mask::lower_n_mask(n) ^ mask::lower_n_halfway(n) ^ mask::nth_bit(n)
}
