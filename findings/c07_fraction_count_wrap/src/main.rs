//! Demonstration of the genuine C07 defect found by the static no-wrap rule:
//! `fraction_count as i32` in src/parse.rs wraps for more than i32::MAX fraction bytes.
//! The API takes iterators, so no memory is needed for the long inputs.
use std::iter::repeat;

fn main() {
    let one = b"1";
    let mut bad = 0;
    // 1) value 10^-2200000001: must be +0.0
    let frac = repeat(&b'0').take(2_200_000_000usize).chain(one.iter());
    let r: f64 = minimal_lexical::parse_float(b"".iter(), frac, 0);
    println!("case 1: 2.2e9 zeros then 1, exponent 0        -> {:e} (bits {:#x}), expected 0", r, r.to_bits());
    if r.to_bits() != 0 { bad += 1; }
    // 2) compensated: 10^(i32::MAX) * 10^-(2147483701) = 1e-54
    let frac = repeat(&b'0').take(2_147_483_700usize).chain(one.iter());
    let r: f64 = minimal_lexical::parse_float(b"".iter(), frac, i32::max_value());
    println!("case 2: 2147483700 zeros then 1, exponent MAX -> {:e}, expected 1e-54", r);
    if r != 1e-54 { bad += 1; }
    // 3) compensated on the integer side: 2147483748 integer digits "1000...": 10^(2147483747) * 10^(i32::MIN) = 1e99
    let int = one.iter().chain(repeat(&b'0').take(2_147_483_747usize));
    let r: f64 = minimal_lexical::parse_float(int, b"".iter(), i32::min_value());
    println!("case 3: 1 then 2147483747 zeros, exponent MIN  -> {:e}, expected 1e99", r);
    if r != 1e99 { bad += 1; }
    if bad > 0 { println!("DEFECT: {} wrong results", bad); std::process::exit(1); }
    println!("all correct");
}
