//! Demonstration for the C11 finding: with `--features compact` the Bellerophon stage returned a
//! definite but wrong float for some inputs with more than 19 significant digits.
//! Reference: Rust's own `str::parse::<f64>` (correctly rounded).  Run: `cargo run --release --offline`.
fn p64(int: &str, exp: i32) -> f64 {
    minimal_lexical::parse_float::<f64, _, _>(int.as_bytes().iter(), b"".iter(), exp)
}

fn main() {
    let mut bad = 0u32;
    // a fixed witness (found by an independent reviewer), then a deterministic sweep of 20-digit inputs whose
    // 19-digit prefix lies just above 10^18 (the prefix is normalised by 4 bits, so the dropped digit weighs most)
    let fixed = [("10181893057430639439", -281), ("10301474463335020569", -281), ("10147776336811056329", -141)];
    for (i, e) in fixed.iter() {
        let want: f64 = format!("{}e{}", i, e).parse().unwrap();
        let got = p64(i, *e);
        let ok = got.to_bits() == want.to_bits();
        println!("{}e{}: got {:e} ({:#018x}) expected {:e} ({:#018x}) {}", i, e, got, got.to_bits(), want, want.to_bits(), if ok { "ok" } else { "WRONG" });
        bad += !ok as u32;
    }
    let mut x: u64 = 0x9E3779B97F4A7C15;
    let n = 200_000;
    let mut sweep_bad = 0u32;
    for _ in 0..n {
        x = x.wrapping_mul(6364136223846793005).wrapping_add(1442695040888963407);
        let m = 1_000_000_000_000_000_000u64 + (x >> 4) % 150_000_000_000_000_000u64;
        let e = ((x >> 40) % 600) as i32 - 320;
        let s = format!("{}9", m);
        let want: f64 = format!("{}e{}", s, e).parse().unwrap();
        if p64(&s, e).to_bits() != want.to_bits() {
            sweep_bad += 1;
        }
    }
    println!("sweep: {} of {} inputs misrounded", sweep_bad, n);
    let direct_bad = direct_calls();
    std::process::exit(if bad + sweep_bad + direct_bad == 0 { 0 } else { 1 });
}

/// Second part (fix 62f3e9d): direct calls of the stage with a TRUNCATED short significand.  A definite answer is only allowed if the
/// exact significands w and w+1 round to the same float; the stage used to answer definitely although they differ.
fn direct_calls() -> u32 {
    use minimal_lexical::bellerophon::bellerophon;
    use minimal_lexical::number::Number;
    let mut x: u64 = 0x243F6A8885A308D3;
    let n = 2_000_000;
    let (mut bad64, mut bad32) = (0u32, 0u32);
    for _ in 0..n {
        x = x.wrapping_mul(6364136223846793005).wrapping_add(1442695040888963407);
        let bits = 1 + (x >> 58) % 63;
        let w = (x >> 1) & ((1u64 << bits) - 1) | 1;
        // the whole exponent range of each format, subnormals included
        let q64 = ((x >> 30) % 800) as i32 - 400;
        let q32 = ((x >> 30) % 140) as i32 - 80;
        let t = |m, e, many| Number { mantissa: m, exponent: e, many_digits: many };
        let r = bellerophon::<f64>(&t(w, q64, true));
        if r.exp >= 0 {
            let (lo, hi) = (bellerophon::<f64>(&t(w, q64, false)), bellerophon::<f64>(&t(w + 1, q64, false)));
            if lo.exp >= 0 && hi.exp >= 0 && (lo.mant != hi.mant || lo.exp != hi.exp) {
                bad64 += 1;
            }
        }
        let r = bellerophon::<f32>(&t(w, q32, true));
        if r.exp >= 0 {
            let (lo, hi) = (bellerophon::<f32>(&t(w, q32, false)), bellerophon::<f32>(&t(w + 1, q32, false)));
            if lo.exp >= 0 && hi.exp >= 0 && (lo.mant != hi.mant || lo.exp != hi.exp) {
                bad32 += 1;
            }
        }
    }
    println!("direct calls, truncated short significands: f64 {} and f32 {} of {} answered definitely although w and w+1 round differently", bad64, bad32, n);
    bad64 + bad32
}
