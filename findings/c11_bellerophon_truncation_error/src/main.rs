//! Demonstration for the C11 finding: with `--features compact` the Bellerophon stage returned a
//! definite but wrong float for some inputs with more than 19 significant digits.
//! Reference: Rust's own `str::parse::<f64>` (correctly rounded).  Run: `cargo run --release --offline`.
fn p64(int: &str, exp: i32) -> f64 {
    minimal_lexical::parse_float::<f64, _, _>(int.as_bytes().iter(), b"".iter(), exp)
}

fn main() {
    let mut bad = 0u32;
    // a fixed witness (found by an independent reviewer), then a deterministic sweep of 20-digit inputs whose
    // 19-digit prefix lies just above 10^18 (the prefix is normalised by 4 bits, so the dropped digit weighs most)
    let fixed = [("10181893057430639439", -281), ("10301474463335020569", -281), ("10147776336811056329", -141)];
    for (i, e) in fixed.iter() {
        let want: f64 = format!("{}e{}", i, e).parse().unwrap();
        let got = p64(i, *e);
        let ok = got.to_bits() == want.to_bits();
        println!("{}e{}: got {:e} ({:#018x}) expected {:e} ({:#018x}) {}", i, e, got, got.to_bits(), want, want.to_bits(), if ok { "ok" } else { "WRONG" });
        bad += !ok as u32;
    }
    let mut x: u64 = 0x9E3779B97F4A7C15;
    let n = 200_000;
    let mut sweep_bad = 0u32;
    for _ in 0..n {
        x = x.wrapping_mul(6364136223846793005).wrapping_add(1442695040888963407);
        let m = 1_000_000_000_000_000_000u64 + (x >> 4) % 150_000_000_000_000_000u64;
        let e = ((x >> 40) % 600) as i32 - 320;
        let s = format!("{}9", m);
        let want: f64 = format!("{}e{}", s, e).parse().unwrap();
        if p64(&s, e).to_bits() != want.to_bits() {
            sweep_bad += 1;
        }
    }
    println!("sweep: {} of {} inputs misrounded", sweep_bad, n);
    std::process::exit(if bad + sweep_bad == 0 { 0 } else { 1 });
}
